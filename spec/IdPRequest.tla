----------------------------- MODULE IdPRequest -----------------------------
(***************************************************************************)
(* C05 - the identity provider's handling of an authentication request.    *)
(*                                                                         *)
(* The step machine mirrors NewIdpAuthnRequest, IdpAuthnRequest.Validate   *)
(* and getACSEndpoint of identity_provider.go (one action per check, in    *)
(* the code's order; the endpoint search is the four-stage search it is:   *)
(* index -> URL -> default browser binding -> first browser binding), and  *)
(* the endpoint choice of ServeIDPInitiated.                               *)
(*                                                                         *)
(* Strings are abstracted to their relation with what the IdP expects;     *)
(* IssueInstant is an integer number of milliseconds relative to now (=0)  *)
(* on a lattice around now - MaxIssueDelay.  The registry holds the        *)
(* requesting SP ("reg", shape varies), one other SP ("other", one POST    *)
(* endpoint at location O) and nothing else.                               *)
(*                                                                         *)
(* The Properties section is written from the property statement (and the  *)
(* rule module), not from the step machine.                                *)
(***************************************************************************)
EXTENDS IdPRequestRule, TLC, Json

CONSTANTS Tier,      \* "q" | "t"
          Guarded    \* TRUE: Validate refuses a request without Issuer (the design the check registers);
                     \* FALSE: the pinned tree, which dereferences the nil Issuer (IdPRequest_pinned.cfg)

Now  == 0
Far  == 3600000
Zero == -2000000000          \* the zero instant (year 1) seen from now

Mids == IF Tier = "q" THEN {90000, 7000} ELSE {90000, 7000, 0, 1, 3600000}

\* ancient: a well-formed instant centuries back (years 1000 - 1675: beyond what a 64-bit count of nanoseconds since 1970
\* holds) - as stale as an instant can be
IICls == {"farIn", "in1", "on", "out1", "farOut", "ancient", "future", "now", "absent", "garbage"}
AbsII(c, mid) == CASE c = "farIn"  -> Now - (mid \div 2)
                   [] c = "in1"    -> Now - mid + 1
                   [] c = "on"     -> Now - mid
                   [] c = "out1"   -> Now - mid - 1
                   [] c = "farOut" -> Now - mid - Far
                   [] c = "ancient" -> Zero + 1
                   [] c = "future" -> Now + Far
                   [] c = "now"    -> Now
                   [] OTHER        -> Zero

IssCls  == {"reg", "other", "unknown", "empty", "absent"}
\* ownurl: another endpoint of this very IdP (its login, logout or metadata URL) - not the SSO URL
DestCls == {"absent", "eq", "nearmiss", "other", "ownurl", "empty"}
VerCls  == {"2.0", "1.1", "near", "absent", "empty"}
UrlCls  == {"absent", "A", "B", "C", "O", "unreg", "nearmiss"}
IdxCls  == {"absent", "n0", "n1", "n2", "unknown", "nonnum", "lead0", "plus", "empty"}

----------------------------------------------------------------------------
(* registry shapes *)
Bind == {"POST", "Redirect", "Artifact", "unknown"}
Defs == {"nil", "true", "false"}
EP(b, i, d, l) == [b |-> b, idx |-> i, def |-> d, loc |-> l]
LocN(k) == CASE k = 1 -> "A" [] k = 2 -> "B" [] k = 3 -> "C"

OtherReg  == << << EP("POST", 1, "nil", "O") >> >>
SimpleReg == << << EP("POST", 1, "nil", "A") >> >>

\* one descriptor, n endpoints varying in (binding, isDefault): exercises the last two stages
DefShapes(n, BS) == { << [k \in 1..n |-> EP(f[k][1], k, f[k][2], LocN(k))] >> : f \in [1..n -> BS \X Defs] }
\* one descriptor, n endpoints varying in (index, location) under a few binding patterns: first two stages
SelShapes(n, IT, LT, BT) == { << [k \in 1..n |-> EP(bt[k], it[k], "nil", lt[k])] >> : it \in IT, lt \in LT, bt \in BT }

Idx2 == [1..2 -> {0, 1, 2}]
Loc2 == { <<"A", "B">>, <<"A", "A">> }
Bnd2 == { <<"POST", "POST">>, <<"Artifact", "POST">>, <<"POST", "unknown">> }
Idx3q == { <<0, 1, 2>>, <<2, 1, 0>>, <<1, 1, 2>>, <<1, 2, 1>>, <<0, 0, 0>> }
Idx3t == [1..3 -> {0, 1, 2}]
Loc3 == { <<"A", "B", "C">>, <<"A", "A", "B">>, <<"A", "B", "A">>, <<"A", "B", "B">>, <<"A", "A", "A">> }
Bnd3 == { <<"POST", "POST", "POST">>, <<"Redirect", "Artifact", "POST">> }

Single == { << <<EP(b, i, d, "A")>> >> : b \in Bind, i \in {0, 1}, d \in Defs }

\* two descriptors (and none): order across descriptors, duplicates across descriptors
TwoDesc == { << <<>>, <<EP("POST", 1, "nil", "A")>> >>,
             << <<EP("POST", 1, "nil", "A")>>, <<EP("POST", 1, "nil", "B")>> >>,       \* same index twice
             << <<EP("POST", 0, "nil", "A")>>, <<EP("POST", 1, "nil", "A")>> >>,       \* same location twice
             << <<EP("Artifact", 0, "nil", "A")>>, <<EP("POST", 1, "true", "B")>> >>,
             << <<EP("POST", 0, "nil", "A")>>, <<EP("Redirect", 1, "true", "B")>> >>,  \* default in the 2nd descriptor
             << <<EP("POST", 1, "false", "A"), EP("Artifact", 2, "true", "B")>>, <<EP("POST", 0, "true", "C")>> >>,
             << <<EP("unknown", 0, "true", "A")>>, <<EP("Artifact", 1, "nil", "B"), EP("Redirect", 2, "nil", "C")>> >> }
NoDesc == { <<>> }

SelRegs == Single \cup SelShapes(2, Idx2, Loc2, Bnd2) \cup TwoDesc \cup NoDesc \cup { << <<>> >> }
           \cup SelShapes(3, IF Tier = "q" THEN Idx3q ELSE Idx3t, Loc3, Bnd3)
DefRegs == DefShapes(1, Bind) \cup DefShapes(2, Bind)
           \cup DefShapes(3, IF Tier = "q" THEN {"POST", "Artifact"} ELSE Bind)
           \cup TwoDesc \cup NoDesc \cup { << <<>> >> }

----------------------------------------------------------------------------
(* request families *)
BaseReq == [kind |-> "sso", enc |-> "any", frame |-> "ok", iss |-> "reg", dest |-> "eq", ver |-> "2.0",
            ii |-> "in1", url |-> "absent", idx |-> "absent"]

\* G: every combination of the gate fields, both encodings, every tolerance setting
ReqG == { [BaseReq EXCEPT !.enc = e, !.iss = i, !.dest = d, !.ver = v, !.ii = t, !.url = u] :
            e \in {"get", "post"}, i \in IssCls, d \in DestCls, v \in VerCls, t \in IICls,
            u \in IF Tier = "q" THEN {"absent"} ELSE {"absent", "A", "unreg"} }
\* F: framing classes per encoding, around a valid and around a stale request
Frames == {"ok", "notb64", "notdeflate", "bomb", "notxml", "unstable", "wrongroot", "put"}
ReqF == { [BaseReq EXCEPT !.enc = e, !.frame = f, !.ii = t, !.url = u] :
            e \in {"get", "post"}, f \in Frames, t \in {"in1", "farOut"}, u \in {"absent", "A"} }
\* S: endpoint selection, gates valid
ReqS == { [BaseReq EXCEPT !.url = u, !.idx = x, !.dest = d] : u \in UrlCls \cup {"empty"}, x \in IdxCls, d \in {"eq"} }
\* D: the last two stages (and that they run only when nothing was requested)
ReqD == { [BaseReq EXCEPT !.url = u, !.idx = x, !.dest = "absent"] :
            u \in {"absent", "unreg"}, x \in {"absent", "unknown"} }
\* O: a request from the other registered SP: its own registry entry decides
ReqO == { [BaseReq EXCEPT !.iss = "other", !.url = u, !.idx = x] :
            u \in {"absent", "A", "O", "unreg"}, x \in {"absent", "n0", "n1"} }
\* I: IdP-initiated launches
ReqI == { [BaseReq EXCEPT !.kind = "idpinit", !.iss = i] : i \in {"reg", "other", "unknown"} }

VARIABLES mid, reg, in, ii, pc, verdict, step, sel
vars == <<mid, reg, in, ii, pc, verdict, step, sel>>

Init == /\ \/ mid \in Mids /\ reg = SimpleReg /\ in \in ReqG
           \/ mid = 90000 /\ reg = SimpleReg /\ in \in ReqF
           \/ mid = 90000 /\ reg \in SelRegs /\ in \in ReqS
           \/ mid = 90000 /\ reg \in DefRegs /\ in \in ReqD
           \/ mid = 90000 /\ reg \in { SimpleReg, << <<EP("POST", 1, "nil", "A"), EP("POST", 0, "nil", "O")>> >> } /\ in \in ReqO
           \/ mid = 90000 /\ reg \in SelRegs \cup DefRegs /\ in \in ReqI
        /\ ii = AbsII(in.ii, mid)
        /\ pc = IF in.kind = "sso" THEN "Method" ELSE "InitLookup"
        /\ verdict = "none" /\ step = "none" /\ sel = None

----------------------------------------------------------------------------
(* the code, step by step *)
Keep == UNCHANGED <<mid, reg, in, ii>>
Reject(why) == pc' = "done" /\ verdict' = "reject" /\ step' = why /\ sel' = None
Goto(l) == pc' = l /\ UNCHANGED <<verdict, step, sel>>
Select(p) == pc' = "done" /\ verdict' = "accept" /\ step' = "none" /\ sel' = p

IsPost == in.enc = "post"      \* "any" is only generated with frame "ok", where the encodings do not differ

\* the registry lookup of the issuer (ServiceProviderProvider)
RegOf(i) == CASE i = "reg" -> reg [] i = "other" -> OtherReg [] OTHER -> <<>>
Known(i) == i \in {"reg", "other"}
R == RegOf(in.iss)

\* NewIdpAuthnRequest :365 switch r.Method
Method == /\ pc = "Method" /\ Keep
          /\ IF in.frame = "put" THEN Reject("Method") ELSE Goto(IF IsPost THEN "ParseForm" ELSE "B64")
\* :377 r.ParseForm (net/http refuses bodies over 10 MB)
ParseForm == /\ pc = "ParseForm" /\ Keep
             /\ IF in.frame = "bomb" THEN Reject("ParseForm") ELSE Goto("B64")
\* :367 / :381 base64
B64 == /\ pc = "B64" /\ Keep
       /\ IF in.frame = "notb64" THEN Reject("Base64") ELSE Goto(IF IsPost THEN "XRV" ELSE "Inflate")
\* :371 bounded inflate (flate.go)
Inflate == /\ pc = "Inflate" /\ Keep
           /\ IF in.frame \in {"notdeflate", "bomb"} THEN Reject("Inflate") ELSE Goto("XRV")
\* Validate :397 round-trip validator (a deflated body on the POST binding is not XML either)
XRV == /\ pc = "XRV" /\ Keep
       /\ IF in.frame \in {"notxml", "unstable", "notdeflate"} THEN Reject("RoundTrip") ELSE Goto("Unmarshal")
\* :401 xml.Unmarshal: root element name, lexical form of IssueInstant
Unmarshal == /\ pc = "Unmarshal" /\ Keep
             /\ IF in.frame = "wrongroot" \/ in.ii = "garbage" THEN Reject("Unmarshal") ELSE Goto("Dest")
\* :430 Destination checked whenever non-empty
Dest == /\ pc = "Dest" /\ Keep
        /\ IF in.dest \in {"nearmiss", "other", "ownurl"} THEN Reject("Destination") ELSE Goto("Fresh")
\* :437 IssueInstant.Add(MaxIssueDelay).Before(now)
Fresh == /\ pc = "Fresh" /\ Keep
         /\ IF ii + mid < Now THEN Reject("IssueInstant") ELSE Goto("Version")
\* :441
Version == /\ pc = "Version" /\ Keep
           /\ IF in.ver # "2.0" THEN Reject("Version") ELSE Goto("Issuer")
\* :446 req.Request.Issuer.Value - Issuer is a pointer
Issuer == /\ pc = "Issuer" /\ Keep
          /\ IF in.iss = "absent"
               THEN (IF Guarded THEN Reject("NoIssuer")
                     ELSE pc' = "done" /\ verdict' = "panic" /\ step' = "IssuerDeref" /\ sel' = None)
               ELSE Goto("Lookup")
\* :447 GetServiceProvider
Lookup == /\ pc = "Lookup" /\ Keep
          /\ IF ~Known(in.iss) THEN Reject("UnknownSP") ELSE Goto("AcsIdx")

\* getACSEndpoint :464 stage 1 - strconv.Itoa(endpoint.Index) == requested string: only the canonical
\* decimal spelling can match; a miss FALLS THROUGH to the URL stage
CanonNum(x) == CASE x = "n0" -> 0 [] x = "n1" -> 1 [] x = "n2" -> 2 [] x = "unknown" -> 99 [] OTHER -> -1
IdxGiven == in.idx \notin {"absent", "empty"}
UrlGiven == in.url \notin {"absent", "empty"}
UrlName  == IF in.url \in {"A", "B", "C", "O"} THEN in.url ELSE "none"
AcsIdx == /\ pc = "AcsIdx" /\ Keep
          /\ LET p == First({ q \in Pos(R) : At(R, q).idx = CanonNum(in.idx) })
             IN IF IdxGiven /\ CanonNum(in.idx) >= 0 /\ p # None THEN Select(p) ELSE Goto("AcsUrl")
\* :484 stage 2 - exact string equality with the registered Location
AcsUrl == /\ pc = "AcsUrl" /\ Keep
          /\ LET p == First({ q \in Pos(R) : RegLoc(At(R, q)) = UrlName })
             IN IF UrlGiven /\ UrlName # "none" /\ p # None THEN Select(p)
                ELSE IF ~UrlGiven /\ ~IdxGiven THEN Goto("AcsDefault")
                ELSE Reject("NoACS")
\* :506 stage 3 - first isDefault=true endpoint with a browser binding
AcsDefault == /\ pc = "AcsDefault" /\ Keep
              /\ LET p == First({ q \in Pos(R) : At(R, q).def = "true" /\ At(R, q).b \in {"POST", "Redirect"} })
                 IN IF p # None THEN Select(p) ELSE Goto("AcsFirst")
\* :530 stage 4 - first endpoint with a browser binding
AcsFirst == /\ pc = "AcsFirst" /\ Keep
            /\ LET p == First({ q \in Pos(R) : At(R, q).b \in {"POST", "Redirect"} })
               IN IF p # None THEN Select(p) ELSE Reject("NoACS")

\* ServeIDPInitiated :285 registry lookup, :297 first POST-binding endpoint
InitLookup == /\ pc = "InitLookup" /\ Keep
              /\ IF ~Known(in.iss) THEN Reject("UnknownSP") ELSE Goto("InitSelect")
InitSelect == /\ pc = "InitSelect" /\ Keep
              /\ LET p == First(PostEPs(R)) IN IF p # None THEN Select(p) ELSE Reject("NoPostACS")

Next == Method \/ ParseForm \/ B64 \/ Inflate \/ XRV \/ Unmarshal \/ Dest \/ Fresh \/ Version \/ Issuer \/ Lookup
        \/ AcsIdx \/ AcsUrl \/ AcsDefault \/ AcsFirst \/ InitLookup \/ InitSelect
Spec == Init /\ [][Next]_vars

----------------------------------------------------------------------------
(* Properties - from the statement of C05 *)
Done == pc = "done"
SSO  == in.kind = "sso"

\* nothing that could be called an authentication request can be decoded
Undecodable == in.frame \in {"notb64", "notdeflate", "notxml"}
Stale       == ii + mid < Now                       \* an absent or unreadable IssueInstant is not fresh
OnBoundary  == ii + mid = Now
Future      == ii > Now
VersionBad  == in.ver # "2.0"
DestBad     == in.dest \in {"nearmiss", "other", "ownurl"}   \* names a Destination that is not the SSO URL
IssuerBad   == ~Known(in.iss)                       \* absent, empty, or unknown to the registry
Adm         == Admissible(R, in.url, in.idx)
NoEndpoint  == Known(in.iss) /\ Adm = {None}

C05MustReject ==
  IF SSO THEN Undecodable \/ Stale \/ VersionBad \/ DestBad \/ IssuerBad \/ NoEndpoint
  ELSE IssuerBad \/ Pos(R) = {}

\* cases the statement leaves open: oversized / oddly framed / wrong-root documents, an empty Destination
\* attribute, the exact freshness boundary, future-dated requests, readings that disagree on whether an
\* endpoint exists, and endpoints that the POST-only response stage cannot serve
Open == IF SSO THEN \/ in.frame \in {"bomb", "unstable", "wrongroot", "put"}
                    \/ in.dest = "empty" \/ OnBoundary \/ Future
                    \/ None \in Adm
                    \/ \E p \in Adm : p # None /\ At(R, p).b # "POST"
        ELSE PostEPs(R) = {}
MustReject == C05MustReject
MustAccept == ~MustReject /\ ~Open
Class == IF MustReject THEN "MustReject" ELSE IF MustAccept THEN "MustAccept" ELSE "DontCare"

RejectsBad  == Done /\ MustReject => verdict = "reject"
AcceptsGood == Done /\ MustAccept => verdict = "accept"
\* whenever processing succeeds the selected endpoint is one of the registered provider's endpoints ...
SelectedIsRegistered == Done /\ verdict = "accept" => Known(in.iss) /\ sel \in Pos(R)
\* ... chosen by the rule of the statement (equality, under some admissible reading)
SelectionRule == Done /\ verdict = "accept" =>
                   IF SSO THEN sel \in Adm \ {None} ELSE sel \in PostEPs(R)
\* only fresh, version 2.0, correctly addressed requests of known providers succeed
OnlyValid == Done /\ verdict = "accept" /\ SSO => ~Stale /\ ~VersionBad /\ ~DestBad /\ ~IssuerBad /\ ~Undecodable
\* the IdP answers every request with a verdict (refuted for Guarded = FALSE: the nil Issuer dereference)
Total == Done => verdict \in {"accept", "reject"}

Emit == Done => PrintT(<<"VEC", ToJson([prop |-> "C05", mid |-> mid, reg |-> reg, otherReg |-> OtherReg, in |-> in, ii |-> ii,
                                        class |-> Class,
                                        why |-> [undecodable |-> SSO /\ Undecodable, stale |-> SSO /\ Stale, version |-> SSO /\ VersionBad,
                                                 dest |-> SSO /\ DestBad, issuer |-> IssuerBad, noEndpoint |-> SSO /\ NoEndpoint,
                                                 open |-> Open],
                                        adm |-> (IF Known(in.iss) THEN (IF SSO THEN Adm ELSE PostEPs(R) \cup (IF PostEPs(R) = {} THEN {None} ELSE {})) ELSE {None}),
                                        pred |-> [verdict |-> verdict, step |-> step, sel |-> sel]])>>)
=============================================================================
