--------------------------- MODULE TraceMiddleware ---------------------------
(***************************************************************************)
(* Reverse direction for C17: random histories of one browser against the  *)
(* real samlsp middleware, without any restore between steps (the jar and  *)
(* the responses in flight accumulate).  One ndjson line per step:         *)
(*   {a: the step as a Middleware act record, r: the projected real reply} *)
(* and {a: {n: "Reset"}} between histories.                                *)
(* Every step is replayed with Middleware's own action (the reference      *)
(* meaning of the history); the line is consumed only if the LOGGED reply  *)
(* satisfies the statement's clauses in the state before the step.         *)
(***************************************************************************)
EXTENDS Middleware

TraceLog == ndJsonDeserialize("trace.ndjson")
VARIABLES l, diffs
tvars == <<flows, jar, net, clock, act, reply, l, diffs>>

TInit == /\ TLCSet(1, 0) /\ TLCSet(2, 0) /\ l = 1 /\ diffs = 0 /\ Init
Cur == TraceLog[l]

\* the statement on a logged reply r to the delivery a, in the state before it
PropOK(r, a) ==
  /\ (r.session # "" =>
        /\ a.r.k # 0 /\ a.view[a.r.k] = F(a.r.k) /\ TokOK(a.r.k) /\ RespOK(a.r)
        /\ r.session = a.r.x
        /\ \/ a.rs = "none" /\ r.target = "default"
           \/ /\ IsF(a.rs) /\ a.view[FlowOf(a.rs)] = F(FlowOf(a.rs)) /\ TokOK(FlowOf(a.rs))
              /\ r.target = "u" \o ToString(FlowOf(a.rs)) /\ r.cleared = FlowOf(a.rs))
  /\ (Faithful(a) => r.session = a.r.x /\ r.target = "u" \o ToString(a.r.k))

Reset == /\ l <= Len(TraceLog) /\ Cur.a.n = "Reset"
         /\ flows' = [k \in Flows |-> -1] /\ jar' = [trk |-> {}, sess |-> ""] /\ net' = {} /\ clock' = 0
         /\ act' = [n |-> "Init"] /\ reply' = NoReply
         /\ l' = l + 1 /\ UNCHANGED diffs

\* what Middleware!Deliver answers to a (the model's prediction, for the diff count only)
ModelAccepts(a) == /\ a.r.k # 0 /\ a.r.k \in Outstanding(a.view) /\ RespOK(a.r)
                   /\ (a.rs = "none" \/ (IsF(a.rs) /\ FlowOf(a.rs) \in Outstanding(a.view)))

\* environment steps are Middleware's own actions; a delivery is judged by the statement's clauses
\* and the jar follows the Set-Cookie headers the real middleware sent (the browser's view)
EnvStep == /\ Cur.a.n \in {"StartFlow", "IdPAnswer", "IdPUnsolicited", "Tick"}
           /\ (\/ \E k \in Flows : StartFlow(k)
               \/ \E k \in Flows, x \in Users : IdPAnswer(k, x)
               \/ \E x \in Users : IdPUnsolicited(x)
               \/ Tick)
           /\ act' = Cur.a
           /\ UNCHANGED diffs
DeliverStep ==
  /\ Cur.a.n = "Deliver"
  /\ Cur.a.r \in net
  /\ PropOK(Cur.r, Cur.a)
  /\ jar' = [trk |-> jar.trk \ {Cur.r.cleared}, sess |-> IF Cur.r.session # "" THEN Cur.r.session ELSE jar.sess]
  /\ act' = Cur.a /\ reply' = Cur.r
  /\ diffs' = diffs + (IF ModelAccepts(Cur.a) = (Cur.r.session # "") THEN 0 ELSE 1)
  /\ UNCHANGED <<flows, net, clock>>
Step == /\ l <= Len(TraceLog) /\ Cur.a.n # "Reset"
        /\ (EnvStep \/ DeliverStep)
        /\ l' = l + 1

TNext == Reset \/ Step
TSpec == TInit /\ [][TNext]_tvars

HighWater == /\ TLCSet(2, IF TLCGet(1) < l THEN diffs ELSE TLCGet(2))
             /\ TLCSet(1, IF TLCGet(1) < l THEN l ELSE TLCGet(1))
Accepted  == /\ TLCGet(1) = Len(TraceLog) + 1
             /\ PrintT(<<"TRACES", Len(TraceLog)>>) /\ PrintT(<<"DIFFS", TLCGet(2)>>)
=============================================================================
