CONSTANTS
  MaxLen = 2
  Minters <- Names
  Fams <- FamsQuick
  DeepLen = 3
  DeepMinters <- MintersTwo
  DeepFams <- FamsDeep
  SibFams <- FamsSibQ
  ProcessWideCache = FALSE
  AudienceIsUrlRoot = FALSE
INIT Init
NEXT Next
INVARIANTS
  OnlyOwnFreshSessionTokens
  OwnFreshSessionAuthenticates
  HistoryIndependent
  Decided
  CacheUnused
  Emit
  EmitDepls
CHECK_DEADLOCK FALSE
