CONSTANTS
  MaxLen = 2
  Minters <- Names
  Fams <- FamsQuick
  DeepLen = 3
  DeepMinters <- MintersTwo
  DeepFams <- FamsDeep
  ProcessWideCache = FALSE
INIT Init
NEXT Next
INVARIANTS
  OnlyOwnFreshSessionTokens
  OwnFreshSessionAuthenticates
  HistoryIndependent
  Decided
  CacheUnused
  Emit
CHECK_DEADLOCK FALSE
