--------------------------- MODULE SPTrustHistory ---------------------------
(***************************************************************************)
(* C01 / C18 over the life of ONE ServiceProvider value: the application   *)
(* replaces the IdP metadata the SP trusts (key roll-over, a withdrawn     *)
(* key, another IdP) between validations.  "Trusted" in both statements    *)
(* means trusted by the configuration in force when the message is         *)
(* presented; nothing a previous validation computed may survive a change  *)
(* of configuration.                                                       *)
(*                                                                         *)
(* State: the set of IdP signing certificates in the SP's current          *)
(* metadata.  Actions: SetTrust (the metadata is replaced, or edited in    *)
(* place - the harness does both), Present (a message whose only           *)
(* signature is by key k, certificate in KeyInfo: a SAML response or a     *)
(* logout response).  Every history up to MaxLen steps that ends in a      *)
(* Present is emitted and replayed on one real ServiceProvider value       *)
(* (harness/sp_trust_history_test.go).                                     *)
(***************************************************************************)
EXTENDS Integers, Sequences, FiniteSets, TLC, Json

CONSTANT MaxLen

Keys   == {"K1", "K2", "KA"}              \* KA is never in any configuration
Trusts == {{"K1"}, {"K2"}, {"K1", "K2"}}
Kinds  == {"response", "logout"}

VARIABLES trust, hist
vars == <<trust, hist>>

Init == trust \in Trusts /\ hist = <<[a |-> "init", t |-> trust]>>

SetTrust(T) == /\ T # trust /\ Len(hist) <= MaxLen
               /\ trust' = T
               /\ hist' = Append(hist, [a |-> "set", t |-> T])
Present(kind, k) == /\ Len(hist) <= MaxLen
                    /\ hist' = Append(hist, [a |-> "present", kind |-> kind, k |-> k,
                                             v |-> IF k \in trust THEN "accept" ELSE "reject"])
                    /\ UNCHANGED trust
Next == (\E T \in Trusts : SetTrust(T)) \/ (\E kind \in Kinds, k \in Keys : Present(kind, k))
Spec == Init /\ [][Next]_vars

Last == hist[Len(hist)]
\* the statements, on the model: accepted only under the configuration in force
OnlyCurrentTrust == Last.a = "present" /\ Last.v = "accept" => Last.k \in trust
\* and a genuine message of a currently trusted key is accepted whatever happened before
CurrentTrustSuffices == Last.a = "present" /\ Last.k \in trust => Last.v = "accept"
\* the verdict is a function of the current configuration alone (history independence)
HistoryIndependent ==
  \A i \in 1..Len(hist) : hist[i].a = "present" =>
     LET cfgAt == CHOOSE j \in 1..i : hist[j].a \in {"init", "set"} /\ \A m \in (j + 1)..i : hist[m].a = "present"
     IN hist[i].v = (IF hist[i].k \in hist[cfgAt].t THEN "accept" ELSE "reject")

Emit == Last.a = "present" => PrintT(<<"THIST", ToJson([hist |-> hist])>>)
=============================================================================
