--------------------------- MODULE SPTrustHistory ---------------------------
(***************************************************************************)
(* C01 / C18 over the life of ONE ServiceProvider value: the application   *)
(* replaces the IdP metadata the SP trusts (key roll-over, a withdrawn     *)
(* key, another IdP) between validations.  "Trusted" in both statements    *)
(* means trusted by the configuration in force when the message is         *)
(* presented; nothing a previous validation computed may survive a change  *)
(* of configuration.                                                       *)
(*                                                                         *)
(* State: the set of IdP signing certificates in the SP's current          *)
(* metadata.  Actions: SetTrust (the metadata is replaced, or edited in    *)
(* place - the harness does both), Present (a message whose only           *)
(* signature is by key k, certificate in KeyInfo: a SAML response or a     *)
(* logout response).  Every history up to MaxLen steps that ends in a      *)
(* Present is emitted and replayed on one real ServiceProvider value       *)
(* (harness/sp_trust_history_test.go).                                     *)
(*                                                                         *)
(* Forms of a presented message: a logout response; a SAML response signed *)
(* on the Response (level "response") or only on its Assertion (level      *)
(* "assertion", Response unsigned); and "tampered" = the genuine           *)
(* assertion-signed response of key k with the assertion's content altered *)
(* after signing (ID and Signature element kept, other NameID).  The       *)
(* genuine assertion-signed message of a key is the SAME message at every  *)
(* step (same ID, same SignatureValue), so a tampered message may follow   *)
(* the accepted genuine one on the same ServiceProvider value.  C01: the   *)
(* altered content was never covered by a signature - a tampered message   *)
(* is rejected at every position of every history, whatever was presented  *)
(* or trusted before.                                                      *)
(***************************************************************************)
EXTENDS Integers, Sequences, FiniteSets, TLC, Json

CONSTANT MaxLen

Keys   == {"K1", "K2", "KA"}              \* KA is never in any configuration
Trusts == {{"K1"}, {"K2"}, {"K1", "K2"}}
Forms  == {[kind |-> "logout",   level |-> "response"],
           [kind |-> "response", level |-> "response"],
           [kind |-> "response", level |-> "assertion"],
           [kind |-> "tampered", level |-> "assertion"]}
\* the verdict the statements fix for form f by key k under configuration T
Verdict(f, k, T) == IF f.kind # "tampered" /\ k \in T THEN "accept" ELSE "reject"

VARIABLES trust, hist
vars == <<trust, hist>>

Init == trust \in Trusts /\ hist = <<[a |-> "init", t |-> trust]>>

SetTrust(T) == /\ T # trust /\ Len(hist) <= MaxLen
               /\ trust' = T
               /\ hist' = Append(hist, [a |-> "set", t |-> T])
Present(f, k) == /\ Len(hist) <= MaxLen
                 /\ hist' = Append(hist, [a |-> "present", kind |-> f.kind, level |-> f.level, k |-> k,
                                          v |-> Verdict(f, k, trust)])
                 /\ UNCHANGED trust
Next == (\E T \in Trusts : SetTrust(T)) \/ (\E f \in Forms, k \in Keys : Present(f, k))
Spec == Init /\ [][Next]_vars

Last == hist[Len(hist)]
\* the statements, on the model: accepted only under the configuration in force
OnlyCurrentTrust == Last.a = "present" /\ Last.v = "accept" => Last.k \in trust
\* and a genuine message of a currently trusted key is accepted whatever happened before
CurrentTrustSuffices == Last.a = "present" /\ Last.kind # "tampered" /\ Last.k \in trust => Last.v = "accept"
\* content altered after signing is never accepted, at any position of any history
TamperedNeverAccepted == \A i \in 1..Len(hist) : hist[i].a = "present" /\ hist[i].kind = "tampered" => hist[i].v = "reject"
\* the verdict is a function of the current configuration alone (history independence)
HistoryIndependent ==
  \A i \in 1..Len(hist) : hist[i].a = "present" =>
     LET cfgAt == CHOOSE j \in 1..i : hist[j].a \in {"init", "set"} /\ \A m \in (j + 1)..i : hist[m].a = "present"
     IN hist[i].v = Verdict(hist[i], hist[i].k, hist[cfgAt].t)

Emit == Last.a = "present" => PrintT(<<"THIST", ToJson([hist |-> hist])>>)
=============================================================================
