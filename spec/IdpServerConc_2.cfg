CONSTANTS
  NProcs = 2
INIT Init
NEXT Next
VIEW View
INVARIANTS
  MutualExclusion
  Emit
CHECK_DEADLOCK FALSE
