CONSTANTS
  MaxLen = 2
  Parts = {"form", "meta"}
  Escaper = "html"
  PrefixCheckOnly = FALSE
  ForeignNamespaceUnchecked = FALSE
  Descs = {"IDPSSODescriptor", "SPSSODescriptor", "AuthnAuthorityDescriptor", "PDPDescriptor", "AttributeAuthorityDescriptor"}
  BaseCases = TRUE
  NsSet = {"mdPrefix", "selfPrefix", "ancestorPrefix", "foreignPrefix", "noNs", "undeclared"}
  NsWide = FALSE
  ChecksFirstAttribute = FALSE
  AttrForms = {"plainThenForeign", "foreignThenPlain", "foreignOnly"}
INIT Init
NEXT Next
INVARIANTS
  StructurePreserved
  ScriptUrlsNeverInAction
  SurvivorsSafe
  RejectsHostile
  AcceptsGood
  UnknownBlanked
  AllReachASlice
  Emit
CHECK_DEADLOCK FALSE
