CONSTANTS
  MaxLen = 2
  Parts = {"form", "meta"}
  Escaper = "html"
  PrefixCheckOnly = FALSE
INIT Init
NEXT Next
INVARIANTS
  StructurePreserved
  ScriptUrlsNeverInAction
  SurvivorsSafe
  RejectsHostile
  AcceptsGood
  UnknownBlanked
  Emit
CHECK_DEADLOCK FALSE
