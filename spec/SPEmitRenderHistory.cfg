CONSTANTS
  MaxLen = 3
INIT Init
NEXT Next
INVARIANTS
  EveryEmissionSigned
  HistoryFree
  ValueUnchanged
  Emit
CHECK_DEADLOCK FALSE
