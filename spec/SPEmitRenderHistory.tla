------------------------ MODULE SPEmitRenderHistory ------------------------
(***************************************************************************)
(* C12 / C13, histories of RENDER calls on ONE message value.              *)
(*                                                                         *)
(* A message made by MakeAuthenticationRequest / MakeLogoutRequest /       *)
(* MakeLogoutResponse is a value the application holds; it may render it   *)
(* several times and in several ways (show a form and a no-script link,    *)
(* try one binding first, log the XML):                                    *)
(*    AuthnRequest    Redirect(relayState, sp)  Post(relayState)  Element() *)
(*    LogoutRequest   Redirect  Post  Element  Bytes  Deflate              *)
(*    LogoutResponse  Redirect  Post  Element                              *)
(* The value is built for the POST binding with signing on, for the        *)
(* redirect binding with signing on, or with signing off.  TLC enumerates  *)
(* every sequence of MaxLen renderings for every kind and build; the        *)
(* harness replays each sequence on ONE value and judges every emission    *)
(* exactly like the stateless cases of SPEmit.tla.                         *)
(*                                                                         *)
(* Shaped like the code: the value carries its enveloped signature in the  *)
(* field Signature, set at creation (SignAuthnRequest :633 ... only when   *)
(* the binding is POST :549; SignLogoutRequest / SignLogoutResponse always *)
(* when a method is configured :1403 :1519); every renderer READS the      *)
(* value through Element() (schema.go:82 :181 :1270) and AuthnRequest.     *)
(* Redirect adds the detached query signature (:322-332).  No renderer     *)
(* writes the value: step i's emission is a function of the value as built *)
(* and of step i's call alone.                                             *)
(***************************************************************************)
EXTENDS Integers, Sequences, TLC, Json

CONSTANTS MaxLen

Kinds  == {"authn", "logoutreq", "logoutresp"}
Builds == {"post-signed", "redirect-signed", "unsigned"}
Ops(k) == CASE k = "authn"      -> {"Redirect", "Post", "Element"}
            [] k = "logoutreq"  -> {"Redirect", "Post", "Element", "Bytes", "Deflate"}
            [] k = "logoutresp" -> {"Redirect", "Post", "Element"}
\* the binding an emission travels on ("none": the bare element / its serialisation)
BindingOf(op) == IF op = "Redirect" THEN "redirect" ELSE IF op = "Post" THEN "post" ELSE "none"

VARIABLES built,   \* [kind, build]  what Make* was asked for
          val,     \* the message value now: [sig]  (Signature field set; the other fields are symbolic constants)
          hist     \* emissions so far
vars == <<built, val, hist>>

Signing(b) == b # "unsigned"
\* :549 "We don't need to sign the XML document if the IDP uses HTTP-Redirect binding"
SignedAtCreation(k, b) == Signing(b) /\ ~(k = "authn" /\ b = "redirect-signed")

Init == /\ \E k \in Kinds, b \in Builds : built = [kind |-> k, build |-> b]
        /\ val = [sig |-> SignedAtCreation(built.kind, built.build)]
        /\ hist = <<>>

\* what one rendering emits, read from the value
Emission(op) == [op |-> op, binding |-> BindingOf(op),
                 enveloped |-> val.sig,                                     \* Element(): if r.Signature != nil { AddChild }
                 detached  |-> built.kind = "authn" /\ op = "Redirect" /\ Signing(built.build)]   \* :322 len(sp.SignatureMethod) > 0

Render(op) ==
  /\ Len(hist) < MaxLen
  /\ op \in Ops(built.kind)
  /\ hist' = Append(hist, Emission(op))
  /\ UNCHANGED <<built, val>>          \* renderers read the value; none of them assigns a field of it

Next == \E op \in {"Redirect", "Post", "Element", "Bytes", "Deflate"} : Render(op)
Spec == Init /\ [][Next]_vars

----------------------------------------------------------------------------
(* Properties - from the statements of C12 and C13 only *)

\* C13: the form of signature an emission must carry depends on what is emitted and how, never on what was
\* emitted before: detached for a redirect-bound AuthnRequest, enveloped for POST-binding requests and logout
\* messages.  An AuthnRequest built for the redirect binding but rendered otherwise has no stateless
\* counterpart ("open"); with signing off nothing is required.
RequiredForm(k, b, op) ==
  IF ~Signing(b) THEN "none"
  ELSE IF k = "authn" /\ op = "Redirect" THEN "detached"
  ELSE IF k = "authn" /\ b = "redirect-signed" THEN "open"
  ELSE "enveloped"

Satisfies(e, form) == CASE form = "detached"  -> e.detached
                        [] form = "enveloped" -> e.enveloped
                        [] OTHER -> TRUE
EveryEmissionSigned == \A i \in DOMAIN hist : Satisfies(hist[i], RequiredForm(built.kind, built.build, hist[i].op))
\* C12 / C13: an emission is what a fresh value rendered once would emit (same message, same signature form)
HistoryFree == \A i \in DOMAIN hist :
                 hist[i] = [op |-> hist[i].op, binding |-> BindingOf(hist[i].op),
                            enveloped |-> SignedAtCreation(built.kind, built.build),
                            detached  |-> built.kind = "authn" /\ hist[i].op = "Redirect" /\ Signing(built.build)]
ValueUnchanged == val = [sig |-> SignedAtCreation(built.kind, built.build)]

Steps == [i \in DOMAIN hist |-> [op |-> hist[i].op, binding |-> hist[i].binding,
                                 required |-> RequiredForm(built.kind, built.build, hist[i].op),
                                 pred |-> [enveloped |-> hist[i].enveloped, detached |-> hist[i].detached]]]
\* every prefix of a maximal history is judged inside it
Emit == Len(hist) = MaxLen => PrintT(<<"REND", ToJson([kind |-> built.kind, build |-> built.build, steps |-> Steps])>>)
=============================================================================
