\* Not a registered phase.  getCertBasedOnFingerprint without its child-count guard: TLC refutes
\* NoPanic with a fingerprint-pinning SP and an empty <ds:X509Certificate/> (fixes/C09b.md).
CONSTANTS
  Tier = "q"
  Unguarded = {"FpCertChildIndex"}
  Unwrapped = {}
  DepthRestore = "parent"
  ContextDropped = FALSE
  CloseFailure = "logged"
INIT Init
NEXT Next
INVARIANTS
  NoPanic
CHECK_DEADLOCK TRUE
