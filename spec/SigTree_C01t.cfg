CONSTANTS
  K = 3
  MaxNodes = 12
  BaseSet <- DeepBases
  RunCfgSeq <- RunsDeep
  Prods <- AllProds
  KISet <- KIClassic
  EmitMin = 3
  EmitFrom = 3
  EmitMod = 32
INIT Init
NEXT Next
INVARIANTS
  AllProps
CHECK_DEADLOCK FALSE
