CONSTANTS
  K = 3
  MaxNodes = 12
  BaseSet <- DeepBases
  RunCfgSeq <- RunsDeep
  Prods <- TreeProds
  KISet <- KIClassic
  EnvWhereSet <- EnvWheres
  SibSeqSet <- SibCover
  Deviations = {}
  EmitMin = 3
  EmitFrom = 3
  EmitMod = 32
INIT Init
NEXT Next
INVARIANTS
  AllProps
CHECK_DEADLOCK FALSE
