--------------------------- MODULE TraceIdpServer ---------------------------
(***************************************************************************)
(* Reverse direction for C19: long random histories recorded from the real *)
(* samlidp server (with a restart - a new server over the same store -     *)
(* inserted at random positions, invisible to the model).  One ndjson line *)
(* per request: {a: the request as an IdpServer act record, r: the         *)
(* projection of the real reply}.  A line {a: {n: "Reset"}} starts a new   *)
(* history on an empty store.                                              *)
(*                                                                         *)
(* The trace spec replays every request with IdpServer's OWN action (the   *)
(* reference meaning of the history: who is registered, what the current   *)
(* password is, which sessions are live) and consumes the line only if the *)
(* LOGGED reply satisfies the statement's clauses in the state before the  *)
(* request.  Logged replies that merely differ from the model's are        *)
(* counted (diffs), not rejected.                                          *)
(***************************************************************************)
EXTENDS IdpServer

TraceLog == ndJsonDeserialize("trace.ndjson")
VARIABLES l, diffs
tvars == <<users, services, registry, shortcuts, sessions, act, reply, l, diffs>>

TInit == /\ TLCSet(1, 0) /\ TLCSet(2, 0) /\ l = 1 /\ diffs = 0 /\ Init

Cur == TraceLog[l]

\* the statement, on a logged reply r to request a, judged in the state before the request
PropOK(r, a) ==
  /\ (r.kind = "assertion" =>
        /\ Stored(r.aud)
        /\ \/ /\ "ck" \in DOMAIN a /\ CookieSession(a.ck) # 0
              /\ r.user = sessions[CookieSession(a.ck)].user /\ r.ver = sessions[CookieSession(a.ck)].ver
           \/ /\ a.n \in {"Login", "SSOLogin"} /\ CredsOK(a.u, a.pw)
              /\ r.user = a.u /\ r.ver = users[a.u].ver)
  /\ (r.cookie # 0 => a.n \in {"Login", "SSOLogin"} /\ CredsOK(a.u, a.pw))
  /\ r.status \in {200, 204, 400, 404, 500}

Reset == /\ l <= Len(TraceLog) /\ Cur.a.n = "Reset"
         /\ users' = [u \in Users |-> NoUser]
         /\ services' = [n \in SvcNames |-> ""] /\ registry' = [n \in SvcNames |-> ""]
         /\ shortcuts' = [c \in Shortcuts |-> ""] /\ sessions' = [k \in Slots |-> NoSess]
         /\ act' = [n |-> "Init"] /\ reply' = NoReply
         /\ l' = l + 1 /\ UNCHANGED diffs

Step == /\ l <= Len(TraceLog) /\ Cur.a.n # "Reset"
        /\ (Request \/ Tick \/ Restart) /\ act' = Cur.a
        /\ (Cur.a.n \notin {"Tick", "Restart"} => PropOK(Cur.r, Cur.a))
        /\ l' = l + 1
        /\ diffs' = diffs + (IF Cur.a.n \in {"Tick", "Restart"} \/ reply' = Cur.r THEN 0 ELSE 1)

TNext == Reset \/ Step
TSpec == TInit /\ [][TNext]_tvars

HighWater == /\ TLCSet(2, IF TLCGet(1) < l THEN diffs ELSE TLCGet(2))
             /\ TLCSet(1, IF TLCGet(1) < l THEN l ELSE TLCGet(1))
Accepted  == /\ TLCGet(1) = Len(TraceLog) + 1
             /\ PrintT(<<"TRACES", Len(TraceLog)>>) /\ PrintT(<<"DIFFS", TLCGet(2)>>)
=============================================================================
