CONSTANTS
  NProcs = 2
  Focus = "all"
SPECIFICATION Spec
INVARIANTS
  MutualExclusion
  PendingIsBlocked
  DoneHoldsNothing
  NoStuck
PROPERTIES
  Completes
CHECK_DEADLOCK FALSE
