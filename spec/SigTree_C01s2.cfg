CONSTANTS
  K = 2
  MaxNodes = 14
  BaseSet <- AllBases
  RunCfgSeq <- RunsEnv
  Prods <- SibFamily
  KISet <- KIClassic
  EnvWhereSet <- EnvWheres
  SibSeqSet <- SibCover
  Deviations = {}
  EmitMin = 2
  EmitFrom = 2
  EmitMod = 8
INIT Init
NEXT Next
INVARIANTS
  AllProps
CHECK_DEADLOCK FALSE
