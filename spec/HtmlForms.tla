------------------------------ MODULE HtmlForms ------------------------------
(***************************************************************************)
(* C14 - peer-controlled strings cannot alter the emitted HTML forms or    *)
(* smuggle script URLs through metadata.                                   *)
(*                                                                         *)
(* Part "form".  Text is a sequence of character CLASSES (TLC strings are  *)
(* atomic).  Each emitted page is a fixed skeleton: a sequence of nodes    *)
(* (open tag with attributes / close tag / text) whose attribute values    *)
(* and text are either template literals or SLOTS filled from peer data.   *)
(* The pipeline mirrors html/template as used by the library:              *)
(*     Render   : skeleton x slot values -> stream of output characters    *)
(*                (slot values pass through the URL filter + normaliser    *)
(*                 for `action`, then the HTML escaper)                    *)
(*     Tokenize : what an HTML tokenizer makes of that stream              *)
(* The Properties section (written from the statement only) demands that   *)
(* the token sequence is the skeleton again, with every slot value inert.  *)
(*                                                                         *)
(* Part "meta".  The decision table of checkEndpointLocation (metadata.go) *)
(* as applied by Endpoint.UnmarshalXML and IndexedEndpoint.UnmarshalXML to *)
(* Location and ResponseLocation, over every endpoint-bearing element of   *)
(* every descriptor type x binding x location class.  A location class is  *)
(* a pair (scheme class, shape): the scheme class says how the value       *)
(* begins (http, https, mixed case, script schemes, blanks, no scheme),     *)
(* the shape - for the http-ish scheme classes - what follows the scheme:  *)
(* a plain URL, a string that has the right prefix but is NOT a URL        *)
(* (control characters, unbalanced IPv6 bracket, non-numeric port, bad     *)
(* percent-escape, blank in the host), a string net/url is lenient about,  *)
(* or a well-formed but unusual URL.  net/url.Parse is modelled stage by   *)
(* stage (UrlParse).  The endpoint ELEMENT has a lexical form (NsForms):   *)
(* how its tag is written and which namespace declarations are in scope    *)
(* (md: prefix / default namespace / another prefix bound to the metadata  *)
(* namespace on the element itself or on an ancestor / a prefix or default *)
(* bound to a FOREIGN namespace / xmlns="" / a prefix declared nowhere).   *)
(* Two steps of encoding/xml come before the location check: ResolveName   *)
(* (Decoder.translate: the expanded name of the element) and MatchField    *)
(* (which field of the descriptor struct takes the element: the local name *)
(* decides, the namespace only where the field's tag names one - none of   *)
(* the endpoint fields does).  Which elements reach an endpoint slice is   *)
(* thus derived; the statement's requirement applies to every element that *)
(* does, whatever its namespace.  The ATTRIBUTES of the start element are  *)
(* a dimension too (AttrForms): the Location / ResponseLocation attribute  *)
(* once, unprefixed - or next to / replaced by an attribute of the same    *)
(* local name in a FOREIGN namespace (schema-valid: anyAttribute ##other). *)
(* DecodeAttrs models how encoding/xml fills a `Location,attr` field: by   *)
(* local name (the tag names no namespace), the LAST occurrence winning -  *)
(* so which value reaches the field is derived, and the statement applies  *)
(* to that value.  Named deviations                                        *)
(*   PrefixCheckOnly   the location is judged by the text before its first *)
(*                     colon only (no URL parse)                           *)
(*   ForeignNamespaceUnchecked   the location check is skipped for an      *)
(*                     element whose namespace is not the metadata one     *)
(*                     (the element is still collected)                    *)
(*   ChecksFirstAttribute   the location check runs on the START ELEMENT   *)
(*                     (first attribute with the local name, in place)     *)
(*                     before the struct is decoded from it                *)
(* are FALSE in the registered configurations and TRUE in                  *)
(* HtmlForms_C14dev.cfg / HtmlForms_C14devns.cfg / HtmlForms_C14devattr.cfg*)
(* where TLC must refute RejectsHostile.                                   *)
(***************************************************************************)
EXTENDS Integers, Sequences, FiniteSets, TLC, Json

CONSTANTS MaxLen,     \* bound on the length of hostile class-strings (2 quick / 3 thorough)
          Parts,      \* subset of {"form", "meta"}
          Escaper,    \* "html" (html/template, the implementation) | "text" (text/template: the mutant, for demonstration)
          PrefixCheckOnly,  \* named deviation of part "meta" (FALSE: the implementation)
          ForeignNamespaceUnchecked,   \* named deviation of part "meta" (FALSE: the implementation)
          Descs,      \* part "meta": the descriptor types enumerated (all five in the registered configurations)
          BaseCases,  \* part "meta": TRUE = the full product element x attribute x binding x location class, written with the default namespace
          NsSet,      \* part "meta": the other lexical forms of the endpoint element that are enumerated ...
          NsWide,     \* ... over the covering subset of bindings x location classes (FALSE) or over a wide one (TRUE)
          ChecksFirstAttribute,   \* named deviation of part "meta" (FALSE: the implementation)
          AttrForms   \* part "meta": the other forms of the Location / ResponseLocation ATTRIBUTE that are enumerated

(***************************************************************************)
(*                          Part "form": alphabet                          *)
(***************************************************************************)
Alphabet == {"plain", "dquote", "squote", "lt", "gt", "amp", "nul", "u2028", "u2029",
             "lbrace2", "rbrace2", "backtick", "newline", "js", "space", "equals", "slash"}
\* "js" is a script-scheme prefix token ("javascript:", "vbscript:", "data:", any case); it is the
\* only class that contains a colon.  "base" (only ever first, only in URL slots) is a benign
\* absolute prefix "https://host/path?x=" in front of the hostile rest.
Strings  == UNION { [1..n -> Alphabet] : n \in 0..MaxLen }

\* characters of the OUTPUT stream
Raw(c) == <<"raw", c>>      \* the character itself, literally
Ent(c) == <<"ent", c>>      \* an HTML character reference for it (&#34; &amp; &lt; ...)
Pct(c) == <<"pct", c>>      \* %XX escapes of its bytes
W(w)   == <<"w", w>>        \* a run of template-literal characters (kept whole, identity preserved)

(*********************** html/template, as a model *************************)
\* html/template htmlReplacementTable (attribute-value and text context): " & ' + < > are
\* replaced by character references, NUL by U+FFFD.
HtmlEscaped == {"dquote", "squote", "lt", "gt", "amp"}
HtmlEsc(ch) == IF Escaper = "text" THEN ch
               ELSE IF ch[1] = "raw" /\ ch[2] \in HtmlEscaped THEN Ent(ch[2])
               ELSE IF ch = Raw("nul") THEN Raw("repl")
               ELSE ch
EscapeAll(chars) == [i \in 1..Len(chars) |-> HtmlEsc(chars[i])]

\* what MUST be escaped for a value to stay inert: inside a double-quoted attribute value the
\* quote ends the value and an ampersand starts a character reference; in text `<` opens a tag.
MustEscapeAttr == {"dquote", "amp"}
MustEscapeText == {"lt", "amp"}
ASSUME Escaper = "html" => (MustEscapeAttr \subseteq HtmlEscaped /\ MustEscapeText \subseteq HtmlEscaped)

\* URL filter (isSafeURL): the text before the first colon, if it contains no slash, must be
\* http, https or mailto; otherwise the whole value is replaced by the filter constant.
FilterConst == "#ZgotmplZ"
Unsafe(s) == \E i \in 1..Len(s) : /\ s[i] = "js"
                                  /\ \A j \in 1..(i - 1) : s[j] \notin {"slash", "base"}
\* URL normaliser: everything but unreserved / reserved characters and % is percent-encoded
UrlKept == {"plain", "amp", "equals", "slash", "js", "base"}
UrlNormChar(c) == IF c \in UrlKept THEN Raw(c) ELSE Pct(c)
UrlPipeline(s) == IF Escaper = "text" THEN [i \in 1..Len(s) |-> Raw(s[i])]
                  ELSE IF Unsafe(s) THEN <<W(FilterConst)>>
                  ELSE [i \in 1..Len(s) |-> UrlNormChar(s[i])]

(****************************** skeletons **********************************)
A(n, kind, w) == [n |-> n, kind |-> kind, w |-> w]       \* kind: "lit" | "slot" | "url"
NoBody == A("", "lit", "")
Open(name, attrs, sc) == [k |-> "open",  name |-> name, attrs |-> attrs, sc |-> sc,    body |-> NoBody]
Close(name)           == [k |-> "close", name |-> name, attrs |-> <<>>,  sc |-> FALSE, body |-> NoBody]
Text(kind, w)         == [k |-> "text",  name |-> "",   attrs |-> <<>>,  sc |-> FALSE, body |-> A("", kind, w)]

Hidden(name, slot) == Open("input", <<A("type", "lit", "hidden"), A("name", "lit", name), A("value", "slot", slot)>>, TRUE)

JsSpRequest  == "document.getElementById('SAMLSubmitButton').style.visibility=\"hidden\";document.getElementById('SAMLRequestForm').submit();"
JsSpResponse == "document.getElementById('SAMLSubmitButton').style.visibility=\"hidden\";document.getElementById('SAMLResponseForm').submit();"
JsIdpHide    == "document.getElementById('SAMLSubmitButton').style.visibility='hidden';"
JsIdpSubmit  == "document.getElementById('SAMLResponseForm').submit();"

\* service_provider.go AuthnRequest.Post / LogoutRequest.Post / LogoutResponse.Post
SpForm(msgName, formId, js) ==
  << Open("form", <<A("method", "lit", "post"), A("action", "url", "URL"), A("id", "lit", formId)>>, FALSE),
     Hidden(msgName, "Message"),
     Hidden("RelayState", "RelayState"),
     Open("input", <<A("id", "lit", "SAMLSubmitButton"), A("type", "lit", "submit"), A("value", "lit", "Submit")>>, TRUE),
     Close("form"),
     Open("script", <<>>, FALSE), Text("lit", js), Close("script") >>

\* identity_provider.go defaultResponseFormTemplate
IdpResponseForm ==
  << Open("html", <<>>, FALSE),
     Open("form", <<A("method", "lit", "post"), A("action", "url", "URL"), A("id", "lit", "SAMLResponseForm")>>, FALSE),
     Hidden("SAMLResponse", "Message"),
     Hidden("RelayState", "RelayState"),
     Open("input", <<A("id", "lit", "SAMLSubmitButton"), A("type", "lit", "submit"), A("value", "lit", "Continue")>>, TRUE),
     Close("form"),
     Open("script", <<>>, FALSE), Text("lit", JsIdpHide), Close("script"),
     Open("script", <<>>, FALSE), Text("lit", JsIdpSubmit), Close("script"),
     Close("html") >>

\* samlidp/session.go defaultLoginFormTemplate
LoginForm ==
  << Open("html", <<>>, FALSE),
     Open("p", <<>>, FALSE), Text("slot", "Toast"), Close("p"),
     Open("form", <<A("method", "lit", "post"), A("action", "url", "URL")>>, FALSE),
     Open("input", <<A("type", "lit", "text"), A("name", "lit", "user"), A("placeholder", "lit", "user"), A("value", "lit", "")>>, TRUE),
     Open("input", <<A("type", "lit", "password"), A("name", "lit", "password"), A("placeholder", "lit", "password"), A("value", "lit", "")>>, TRUE),
     Hidden("SAMLRequest", "Message"),
     Hidden("RelayState", "RelayState"),
     Open("input", <<A("type", "lit", "submit"), A("value", "lit", "Log In")>>, TRUE),
     Close("form"),
     Close("html") >>

\* samlsp/middleware.go HandleStartAuthFlow, POST binding: wrapper around AuthnRequest.Post
MwPostPage ==
  << Open("!DOCTYPE html", <<>>, FALSE), Open("html", <<>>, FALSE), Open("body", <<>>, FALSE) >>
  \o SpForm("SAMLRequest", "SAMLRequestForm", JsSpRequest)
  \o << Close("body"), Close("html") >>

Forms == {"authn", "logoutreq", "logoutresp", "idpresp", "login", "mwpost"}
Template(f) == CASE f = "authn"      -> SpForm("SAMLRequest",  "SAMLRequestForm",  JsSpRequest)
                 [] f = "logoutreq"  -> SpForm("SAMLRequest",  "SAMLRequestForm",  JsSpRequest)
                 [] f = "logoutresp" -> SpForm("SAMLResponse", "SAMLResponseForm", JsSpResponse)
                 [] f = "idpresp"    -> IdpResponseForm
                 [] f = "login"      -> LoginForm
                 [] f = "mwpost"     -> MwPostPage
SlotsOf(f) == IF f = "login" THEN {"Toast", "URL", "Message", "RelayState"} ELSE {"URL", "Message", "RelayState"}
AllSlots == {"Toast", "URL", "Message", "RelayState"}

(******************************* Render ************************************)
RECURSIVE Flatten(_)
Flatten(ss) == IF ss = <<>> THEN <<>> ELSE Head(ss) \o Flatten(Tail(ss))

ValueChars(a, env) ==
  CASE a.kind = "lit"  -> IF a.w = "" THEN <<>> ELSE <<W(a.w)>>
    [] a.kind = "slot" -> EscapeAll([i \in 1..Len(env[a.w]) |-> Raw(env[a.w][i])])
    [] a.kind = "url"  -> EscapeAll(UrlPipeline(env[a.w]))
AttrChars(a, env) == <<Raw("space"), W(a.n), Raw("equals"), Raw("dquote")>> \o ValueChars(a, env) \o <<Raw("dquote")>>
NodeChars(nd, env) ==
  CASE nd.k = "open"  -> <<Raw("lt"), W(nd.name)>>
                         \o Flatten([i \in 1..Len(nd.attrs) |-> AttrChars(nd.attrs[i], env)])
                         \o (IF nd.sc THEN <<Raw("space"), Raw("slash")>> ELSE <<>>) \o <<Raw("gt")>>
    [] nd.k = "close" -> <<Raw("lt"), Raw("slash"), W(nd.name), Raw("gt")>>
    [] nd.k = "text"  -> ValueChars(nd.body, env)
Render(tmpl, env) == Flatten([i \in 1..Len(tmpl) |-> NodeChars(tmpl[i], env)])

(****************************** Tokenize ***********************************)
\* what an HTML tokenizer reads for one output character inside a value or text
PctName == [c \in Alphabet |-> "%" \o c]
DecodeChar(ch) == CASE ch[1] = "ent" -> ch[2]
                    [] ch[1] = "pct" -> PctName[ch[2]]
                    [] ch[1] = "w"   -> ch[2]
                    [] ch[1] = "raw" -> IF ch[2] = "amp" THEN "amp?"       \* unescaped &: starts a reference, ambiguous
                                        ELSE IF ch[2] = "nul" THEN "repl"  \* parsers replace NUL by U+FFFD
                                        ELSE ch[2]
Tk(k, name, attrs, text) == [k |-> k, name |-> name, attrs |-> attrs, text |-> text]

RECURSIVE ReadValue(_, _, _)
ReadValue(s, i, acc) ==      \* double-quoted attribute value state
  IF i > Len(s) THEN [val |-> acc, next |-> i]
  ELSE IF s[i] = Raw("dquote") THEN [val |-> acc, next |-> i + 1]
  ELSE ReadValue(s, i + 1, Append(acc, DecodeChar(s[i])))

RECURSIVE ReadAttrs(_, _, _)
ReadAttrs(s, i, acc) ==      \* before-attribute-name state ... until the tag closes
  IF i > Len(s) THEN [attrs |-> acc, next |-> i]
  ELSE IF s[i] \in {Raw("space"), Raw("slash"), Raw("newline")} THEN ReadAttrs(s, i + 1, acc)
  ELSE IF s[i] = Raw("gt") THEN [attrs |-> acc, next |-> i + 1]
  ELSE IF i + 2 <= Len(s) /\ s[i + 1] = Raw("equals") /\ s[i + 2] = Raw("dquote")
         THEN LET v == ReadValue(s, i + 3, <<>>)
              IN  ReadAttrs(s, v.next, Append(acc, [n |-> DecodeChar(s[i]), v |-> v.val]))
         ELSE ReadAttrs(s, i + 1, Append(acc, [n |-> DecodeChar(s[i]), v |-> <<"(no quoted value)">>]))

FlushText(acc, text) == IF text = <<>> THEN acc ELSE Append(acc, Tk("text", "", <<>>, text))
RECURSIVE Tok(_, _, _, _)
Tok(s, i, text, acc) ==      \* data state
  IF i > Len(s) THEN FlushText(acc, text)
  ELSE IF s[i] = Raw("lt") /\ i < Len(s)
    THEN IF s[i + 1] = Raw("slash")
           THEN LET nm == IF i + 2 <= Len(s) THEN DecodeChar(s[i + 2]) ELSE ""
                    r  == ReadAttrs(s, i + 3, <<>>)
                IN  Tok(s, r.next, <<>>, Append(FlushText(acc, text), Tk("close", nm, <<>>, <<>>)))
           ELSE LET nm == DecodeChar(s[i + 1])
                    r  == ReadAttrs(s, i + 2, <<>>)
                IN  Tok(s, r.next, <<>>, Append(FlushText(acc, text), Tk("open", nm, r.attrs, <<>>)))
    ELSE Tok(s, i + 1, Append(text, DecodeChar(s[i])), acc)
Tokenize(s) == Tok(s, 1, <<>>, <<>>)

(***************************************************************************)
(*                      Part "meta": the decision table                    *)
(***************************************************************************)
Known    == {"post", "redirect", "artifact", "soap", "soap1"}   \* HTTP-POST, HTTP-Redirect, HTTP-Artifact, SOAP, SAML1 SOAP-binding
Bindings == Known \cup {"unknown"}
Schemes  == {"http", "https", "httpMixed", "javascript", "data", "vbscript", "jsMixed",
             "leadSpace", "leadCtl", "schemeRel", "relPath", "colonFirst", "empty"}
HttpSchemes == {"http", "https", "httpMixed"}
\* shapes of what follows an http-ish scheme (the value after XML decoding)
CtlShapes  == {"ctlCR", "ctlLF", "ctlCRLF", "ctlTAB", "ctlDEL", "ctlC0"}   \* a control character in front of the fragment (CR LF + header-looking
                                                                         \* text; C0 others: XML cannot carry them, the document is ill-formed)
HostShapes == {"badBracket", "badPort", "badPctHost", "spaceHost"}        \* https://[::1/x  https://h:port/x  https://%zz.h/x  https://h h/x
TailShapes == {"badPctPath", "badPctFrag"}                                \* https://h/%zz  https://h/x#%zz
NotUrlShapes == CtlShapes \cup HostShapes \cup TailShapes
\* strings net/url takes although a strict reader would not (or that are URLs of the generic syntax only)
LaxShapes  == {"emptyHost", "schemeOnly", "opaque", "spacePath", "badPctQuery", "idnU", "rawUnicode", "rawDelims",
               "ctlFrag"}                                                 \* CR / LF / TAB / DEL behind the "#" only
\* well-formed, unusual
FineShapes == {"userinfo", "ipv6", "ipv4", "port", "pctPath", "query", "fragment", "idnA", "long", "noPath", "subDelims"}
Shapes == {"plain"} \cup NotUrlShapes \cup LaxShapes \cup FineShapes
V(sc, sh) == [scheme |-> sc, shape |-> sh]
Benign  == V("https", "plain")
Blank   == V("blank", "plain")           \* the empty string checkEndpointLocation stores for an unknown binding
AbsentV == V("absent", "plain")          \* no attribute at all
EmptyV  == V("empty", "plain")           \* attribute present, value ""
El(d, e, kind) == [desc |-> d, elem |-> e, kind |-> kind]       \* kind: "E" Endpoint | "IE" IndexedEndpoint
Elements ==
  { El("IDPSSODescriptor", "SingleSignOnService", "E"),       El("IDPSSODescriptor", "SingleLogoutService", "E"),
    El("IDPSSODescriptor", "ManageNameIDService", "E"),       El("IDPSSODescriptor", "ArtifactResolutionService", "E"),
    El("IDPSSODescriptor", "NameIDMappingService", "E"),      El("IDPSSODescriptor", "AssertionIDRequestService", "E"),
    El("SPSSODescriptor", "AssertionConsumerService", "IE"),  El("SPSSODescriptor", "SingleLogoutService", "E"),
    El("SPSSODescriptor", "ArtifactResolutionService", "IE"), El("SPSSODescriptor", "ManageNameIDService", "E"),
    El("AuthnAuthorityDescriptor", "AuthnQueryService", "E"), El("AuthnAuthorityDescriptor", "AssertionIDRequestService", "E"),
    El("PDPDescriptor", "AuthzService", "E"),                 El("PDPDescriptor", "AssertionIDRequestService", "E"),
    El("AttributeAuthorityDescriptor", "AttributeService", "E"),
    El("AttributeAuthorityDescriptor", "AssertionIDRequestService", "E") }
MetaAttrs == {"Location", "ResponseLocation"}

(* The lexical form of the endpoint element.  The document frame is either "default" (the root declares     *)
(* xmlns=MdNs, descriptors are written without prefix) or "md" (the root declares xmlns:md=MdNs, descriptors *)
(* are written md:...).  A form is the prefix of the element's tag and the namespace declarations on the    *)
(* root, on the descriptor and on the element itself (innermost last).                                      *)
MdNs    == "urn:oasis:names:tc:SAML:2.0:metadata"
OtherNs == "urn:example:other"          \* any URI that is not MdNs character for character (harness: look-alikes too)
D(p, u) == <<p, u>>
LexForm(prefix, root, desc, self) == [prefix |-> prefix, scope |-> <<root, desc, self>>]
DefaultFrame == {D("", MdNs)}
MdFrame      == {D("md", MdNs)}
FormOf(nf) ==
  CASE nf = "default"        -> LexForm("",   DefaultFrame, {}, {})                        \* <E>            (every document of the base cases)
    [] nf = "mdPrefix"       -> LexForm("md", MdFrame, {}, {})                             \* <md:E>
    [] nf = "selfPrefix"     -> LexForm("q",  MdFrame, {}, {D("q", MdNs)})                 \* <q:E xmlns:q=MdNs>: another prefix, declared on the element
    [] nf = "ancestorPrefix" -> LexForm("q",  MdFrame, {D("q", MdNs)}, {})                 \* <q:E>, xmlns:q=MdNs on the descriptor only
    [] nf = "selfDefault"    -> LexForm("",   MdFrame, {}, {D("", MdNs)})                  \* <E xmlns=MdNs> in a prefixed frame
    [] nf = "foreignPrefix"  -> LexForm("x",  MdFrame \cup {D("x", OtherNs)}, {}, {})      \* <x:E>, xmlns:x=OtherNs on the root
    [] nf = "foreignSelf"    -> LexForm("x",  DefaultFrame, {}, {D("x", OtherNs)})         \* <x:E xmlns:x=OtherNs>
    [] nf = "foreignDefault" -> LexForm("",   MdFrame, {}, {D("", OtherNs)})               \* <E xmlns=OtherNs>
    [] nf = "noNs"           -> LexForm("",   DefaultFrame, {}, {D("", "")})               \* <E xmlns="">: the default namespace reset
    [] nf = "noNsFrame"      -> LexForm("",   MdFrame, {}, {})                             \* <E> where no default namespace is declared
    [] nf = "undeclared"     -> LexForm("zz", DefaultFrame, {}, {})                        \* <zz:E>, zz declared nowhere
NsForms == {"default", "mdPrefix", "selfPrefix", "ancestorPrefix", "selfDefault", "foreignPrefix", "foreignSelf",
            "foreignDefault", "noNs", "noNsFrame", "undeclared"}
\* encoding/xml Decoder.translate on an element name: the innermost declaration of the prefix; without prefix the
\* default namespace in scope ("" when there is none or it was reset); a prefix that is declared nowhere is NOT an
\* error for encoding/xml - the prefix itself is left standing as the "namespace"
RECURSIVE Lookup(_, _, _)
Lookup(scope, i, p) == IF i = 0 THEN p
                       ELSE IF \E d \in scope[i] : d[1] = p THEN (CHOOSE d \in scope[i] : d[1] = p)[2]
                       ELSE Lookup(scope, i - 1, p)
SpaceOf(nf) == Lookup(FormOf(nf).scope, 3, FormOf(nf).prefix)
XName(space, local) == [space |-> space, local |-> local]
NoName == XName("?", "?")
\* metadata.go: the field tags of the descriptor structs (`xml:"SingleSignOnService"`, ...) name the local name only;
\* Endpoint and IndexedEndpoint have no XMLName field.  encoding/xml (unmarshal, struct case): a child element goes to
\* the field whose tag has its local name and - only when the tag names a namespace - its namespace.
FieldTag(e) == XName("", e.elem)
Takes(tag, name) == tag.local = name.local /\ (tag.space = "" \/ tag.space = name.space)

(* The attributes of the endpoint's start element that have the local name Location / ResponseLocation, in document *)
(* order.  The attribute under test (c.attr, value: the case's location class) is written in one of these forms;   *)
(* "xa" is a prefix the root binds to OtherNs (EndpointType: anyAttribute namespace="##other" - schema-valid).     *)
(*   single            Location="CASE"                              (every document of the cases above)            *)
(*   plainThenForeign  Location="harmless" xa:Location="CASE"                                                      *)
(*   foreignThenPlain  xa:Location="CASE" Location="harmless"                                                      *)
(*   foreignOnly       xa:Location="CASE"                                                                          *)
AttrFormsAll == {"single", "plainThenForeign", "foreignThenPlain", "foreignOnly"}
At(prefix, local, v) == [prefix |-> prefix, local |-> local, v |-> v]
AttrsWritten(x) ==
  LET case == V(x.scheme, x.shape)
      tgt  == CASE x.at = "single"           -> <<At("", x.attr, case)>>
                [] x.at = "plainThenForeign" -> <<At("", x.attr, Benign), At("xa", x.attr, case)>>
                [] x.at = "foreignThenPlain" -> <<At("xa", x.attr, case), At("", x.attr, Benign)>>
                [] x.at = "foreignOnly"      -> <<At("xa", x.attr, case)>>
  IN IF x.attr = "Location" THEN tgt ELSE <<At("", "Location", Benign)>> \o tgt
\* encoding/xml Decoder.translate on an attribute name: an unprefixed attribute is in NO namespace (the default
\* namespace does not apply to attributes); a prefix is looked up as for elements
AttrScope(nf) == [FormOf(nf).scope EXCEPT ![1] = @ \cup {D("xa", OtherNs)}]
AttrSpace(nf, prefix) == IF prefix = "" THEN "" ELSE Lookup(AttrScope(nf), 3, prefix)
StartAttrs(x) == LET w == AttrsWritten(x) IN
                 [i \in 1..Len(w) |-> [space |-> AttrSpace(x.ns, w[i].prefix), local |-> w[i].local, v |-> w[i].v]]
\* metadata.go: `xml:"Location,attr"`, `xml:"ResponseLocation,attr"` - the tags name no namespace.  encoding/xml
\* (unmarshal, struct case) walks the attributes in document order and stores each one in the attr field that takes
\* it - by local name, by namespace only where the tag names one: the LAST such attribute is what the field holds.
AttrTag(name) == XName("", name)
Taken(as, name) == { i \in 1..Len(as) : Takes(AttrTag(name), XName(as[i].space, as[i].local)) }
FieldVal(as, name) == LET idx == Taken(as, name) IN
                      IF idx = {} THEN AbsentV ELSE as[CHOOSE i \in idx : \A j \in idx : j <= i].v
FirstIdx(as, name) == LET idx == { i \in 1..Len(as) : as[i].local = name } IN
                      IF idx = {} THEN 0 ELSE CHOOSE i \in idx : \A j \in idx : i <= j

(* net/url.Parse on a representative of the class, stage by stage (url.go parse / getScheme /           *)
(* parseAuthority / parseHost / setPath / setFragment).  Result: does it fail, and the scheme it reads. *)
UOk(sch) == [fails |-> FALSE, scheme |-> sch]
UFail    == [fails |-> TRUE,  scheme |-> ""]
\* the text before the first colon, lower-cased ("" when there is no colon or it is not a scheme name)
NameBeforeColon(v) == CASE v.scheme \in {"http", "httpMixed"} -> "http"
                        [] v.scheme = "https" -> "https"
                        [] v.scheme \in {"javascript", "jsMixed"} -> "javascript"
                        [] v.scheme = "data" -> "data"
                        [] v.scheme = "vbscript" -> "vbscript"
                        [] OTHER -> ""                           \* blanks / a control character in front, no colon, colon first
\* Named leniency of net/url that is modelled (class DontCare):
\*   FragmentNotScanned   url.Parse cuts the fragment off before it looks for control characters and setFragment
\*                        only unescapes: a CR / LF / TAB / DEL behind the "#" passes (shape "ctlFrag")
UrlParse(v) ==
  \* stringContainsCTLByte on the part in front of "#": any byte below 0x20 or 0x7f
  IF v.shape \in CtlShapes \/ v.scheme = "leadCtl" THEN UFail
  \* getScheme: letters (digits + - . after the first) up to a colon; a colon in front is "missing protocol scheme";
  \* any other first character means "no scheme", and then a colon in the first path segment is an error
  ELSE IF v.scheme = "colonFirst" THEN UFail
  ELSE IF v.scheme = "leadSpace" THEN UFail                      \* " javascript:..." - first path segment contains a colon
  ELSE IF v.scheme \in {"schemeRel", "relPath", "empty"} THEN UOk("")
  \* a scheme and no "//": opaque, taken as it is
  ELSE IF v.shape \in {"opaque", "schemeOnly"} \/ v.scheme \notin HttpSchemes THEN UOk(NameBeforeColon(v))
  \* parseAuthority / parseHost: brackets, port, escapes and characters of the host
  ELSE IF v.shape \in HostShapes THEN UFail
  \* setPath / setFragment: unescape (the query is not looked at)
  ELSE IF v.shape \in TailShapes THEN UFail
  ELSE UOk(NameBeforeColon(v))

\* metadata.go checkEndpointLocation
CheckEL(b, v) ==
  IF b \in Known
    THEN IF PrefixCheckOnly
           THEN (IF NameBeforeColon(v) \in {"http", "https"} THEN [err |-> FALSE, v |-> v] ELSE [err |-> TRUE, v |-> Blank])
         ELSE LET u == UrlParse(v) IN
              IF u.fails THEN [err |-> TRUE, v |-> Blank]
              ELSE IF u.scheme \notin {"http", "https"} THEN [err |-> TRUE, v |-> Blank]
              ELSE [err |-> FALSE, v |-> v]
    ELSE [err |-> FALSE, v |-> Blank]

(***************************************************************************)
(*                              state machine                              *)
(***************************************************************************)
VARIABLES c,        \* the abstract case
          pc,
          env,      \* form: slot values
          out,      \* form: rendered output stream
          dom,      \* form: token sequence
          loc, rloc, result,   \* meta: the two attribute values and the parse verdict
          xname,    \* meta: the expanded name of the endpoint element (after ResolveName)
          slice,    \* meta: the struct field (= endpoint slice) the element is decoded into, "none" when no field takes it
          start     \* meta: the Location / ResponseLocation attributes of the start element (expanded names, document order)
vars == <<c, pc, env, out, dom, loc, rloc, result, xname, slice, start>>

BenignStr == <<"plain">>
FormCases ==
  { [part |-> "form", form |-> f, slot |-> sl, base |-> b, s |-> s] :
      f \in Forms, sl \in AllSlots, b \in BOOLEAN, s \in Strings }
FormCaseOK(x) == x.slot \in SlotsOf(x.form) /\ (x.base => x.slot = "URL")
\* location classes: every scheme class as a plain value, the http-ish ones with every other shape as well
LocClasses == { V(sc, "plain") : sc \in Schemes } \cup { V(sc, sh) : sc \in HttpSchemes, sh \in Shapes \ {"plain"} }
EnumElements == { e \in Elements : e.desc \in Descs }
MetaCaseA(e, a, b, lc, nf, af) == [part |-> "meta", el |-> e, attr |-> a, binding |-> b, scheme |-> lc.scheme, shape |-> lc.shape, ns |-> nf, at |-> af]
MetaCase(e, a, b, lc, nf) == MetaCaseA(e, a, b, lc, nf, "single")
MetaCasesBase ==
  { MetaCase(e, a, b, lc, "default") : e \in EnumElements, a \in MetaAttrs, b \in Bindings, lc \in LocClasses }
\* the other lexical forms: a covering subset of binding x location class
\*   every binding x {script scheme, relative, plain https}
\*   one standard binding and the unknown one x every other plain scheme class
\*   one standard binding x one shape of each group (not a URL: control characters, authority; lenient; well-formed)
NsShapes == {V("https", "ctlCRLF"), V("http", "badPort"), V("https", "emptyHost"), V("https", "fragment"), V("httpMixed", "port")}
NsCover ==
  IF NsWide THEN Bindings \X ({ V(sc, "plain") : sc \in Schemes } \cup NsShapes)
  ELSE (Bindings \X {V("javascript", "plain"), V("relPath", "plain"), V("https", "plain")})
       \cup ({"post", "unknown"} \X { V(sc, "plain") : sc \in Schemes })
       \cup ({"redirect"} \X NsShapes)
MetaCasesNs ==
  { MetaCase(e, a, bl[1], bl[2], nf) : e \in EnumElements, a \in MetaAttrs, bl \in NsCover, nf \in NsSet \ {"default"} }
\* the other forms of the attribute: every binding x the hostile values {script scheme, data, relative}; the element
\* itself is written as in the base cases
AttrCover == Bindings \X {V("javascript", "plain"), V("data", "plain"), V("relPath", "plain")}
MetaCasesAttr ==
  { MetaCaseA(e, a, bl[1], bl[2], "default", af) :
      e \in EnumElements, a \in MetaAttrs, bl \in AttrCover, af \in AttrForms \ {"single"} }
\* (MetaCasesAttr is a disjunct of Init on its own: as a third operand of this union it made TLC spend 11 s more on the initial states)
MetaCases == (IF BaseCases THEN MetaCasesBase ELSE {}) \cup MetaCasesNs
ASSUME NsSet \subseteq NsForms /\ Descs \subseteq { e.desc : e \in Elements } /\ AttrForms \subseteq AttrFormsAll

EnvOf(x) == [sl \in AllSlots |-> IF sl = x.slot THEN (IF x.base THEN <<"base">> \o x.s ELSE x.s)
                                 ELSE IF sl = "URL" THEN <<"base">> ELSE BenignStr]

InitForm == /\ "form" \in Parts
            /\ c \in {x \in FormCases : FormCaseOK(x)}
            /\ env = EnvOf(c) /\ pc = "render" /\ out = <<>> /\ dom = <<>>
            /\ loc = AbsentV /\ rloc = AbsentV /\ result = "n/a" /\ xname = NoName /\ slice = "" /\ start = <<>>
InitMeta(cases) ==
            /\ "meta" \in Parts
            /\ c \in cases
            /\ pc = "resolve" /\ env = <<>> /\ out = <<>> /\ dom = <<>> /\ xname = NoName /\ slice = ""
            /\ start = <<>> /\ loc = AbsentV /\ rloc = AbsentV      \* nothing read, nothing decoded yet
            /\ result = "none"
Init == InitForm \/ InitMeta(MetaCases) \/ InitMeta(MetaCasesAttr)

\* tmpl.Execute
DoRender   == /\ pc = "render" /\ out' = Render(Template(c.form), env) /\ pc' = "tokenize"
              /\ UNCHANGED <<c, env, dom, loc, rloc, result, xname, slice, start>>
\* the browser
DoTokenize == /\ pc = "tokenize" /\ dom' = Tokenize(out) /\ pc' = "done"
              /\ UNCHANGED <<c, env, out, loc, rloc, result, xname, slice, start>>

\* encoding/xml: the start tag of the endpoint element is read and its name and those of its attributes translated
ResolveName ==
  /\ pc = "resolve" /\ pc' = "match"
  /\ xname' = XName(SpaceOf(c.ns), c.el.elem)
  /\ start' = StartAttrs(c)
  /\ UNCHANGED <<c, env, out, dom, loc, rloc, result, slice>>
\* metadata.go:324 / :362   d.DecodeElement(aux, &start): encoding/xml fills the attr fields of the endpoint struct
\* from the start element - each field from the LAST attribute it takes (FieldVal)
DecodeAttrs == loc' = FieldVal(start, "Location") /\ rloc' = FieldVal(start, "ResponseLocation")
\* encoding/xml: the descriptor struct's fields are searched for one that takes the element; an element no field
\* takes is skipped (nothing of it is stored).  The element a field takes is handed to its UnmarshalXML, whose first
\* act (in the implementation) is DecodeAttrs - one transition, the check steps follow; with the deviation
\* ChecksFirstAttribute the check on the start element comes in between (CheckStartElement, then DecodeLate).
MatchField ==
  /\ pc = "match"
  /\ IF ~Takes(FieldTag(c.el), xname)
       THEN pc' = "done" /\ slice' = "none" /\ loc' = AbsentV /\ rloc' = AbsentV /\ result' = "ok" /\ start' = <<>>
       ELSE IF ChecksFirstAttribute
       THEN pc' = "checkStart" /\ slice' = c.el.elem /\ UNCHANGED <<loc, rloc, result, start>>
       ELSE pc' = "checkLoc" /\ slice' = c.el.elem /\ DecodeAttrs /\ start' = <<>> /\ UNCHANGED result   \* the start element is consumed
  /\ UNCHANGED <<c, env, out, dom, xname>>
DecodeLate ==          \* deviation only: the struct is decoded after the check, nothing looks at it any more
  /\ pc = "decode" /\ DecodeAttrs /\ pc' = "done" /\ result' = "ok"
  /\ UNCHANGED <<c, env, out, dom, xname, slice, start>>
\* deviation ChecksFirstAttribute: checkEndpointLocation is applied to the start element - to the FIRST attribute whose
\* local name is Location (a missing one is checked as ""), then to the first one named ResponseLocation (skipped when
\* absent or empty) - the result written back in place, and only then is the struct decoded from the start element
CheckStartElement ==
  /\ pc = "checkStart"
  /\ LET i    == FirstIdx(start, "Location")
         j    == FirstIdx(start, "ResponseLocation")
         rl   == CheckEL(c.binding, IF i = 0 THEN EmptyV ELSE start[i].v)
         skip == j = 0 \/ (j # 0 /\ start[j].v = EmptyV)
         rr   == IF skip THEN [err |-> FALSE, v |-> EmptyV] ELSE CheckEL(c.binding, start[j].v) IN
       IF rl.err \/ rr.err THEN pc' = "done" /\ result' = "error" /\ UNCHANGED start
       ELSE /\ pc' = "decode" /\ UNCHANGED result
            /\ start' = [k \in 1..Len(start) |-> IF k = i THEN [start[k] EXCEPT !.v = rl.v]
                                                  ELSE IF k = j /\ ~skip THEN [start[k] EXCEPT !.v = rr.v] ELSE start[k]]
  /\ UNCHANGED <<c, env, out, dom, loc, rloc, xname, slice>>

\* metadata.go:301 / :339   m.Location, err = checkEndpointLocation(m.Binding, m.Location)
\* (deviation ForeignNamespaceUnchecked: UnmarshalXML returns before the checks when the element is not in MdNs)
Unchecked == ForeignNamespaceUnchecked /\ xname.space # MdNs
CheckLocation ==
  /\ pc = "checkLoc"
  /\ LET r == CheckEL(c.binding, loc) IN
       IF Unchecked THEN pc' = "done" /\ result' = "ok" /\ UNCHANGED <<loc, rloc>>
       ELSE IF r.err THEN pc' = "done" /\ result' = "error" /\ UNCHANGED <<loc, rloc>>
       ELSE pc' = "checkRLoc" /\ loc' = r.v /\ UNCHANGED <<rloc, result>>
  /\ UNCHANGED <<c, env, out, dom, xname, slice, start>>
\* metadata.go:305 (Endpoint: skipped when the string is empty -- named deviation
\* EndpointSkipsEmptyResponseLocation) / :343 (IndexedEndpoint: skipped when the pointer is nil,
\* a blanked result is stored as nil)
CheckResponseLocation ==
  /\ pc = "checkRLoc"
  /\ LET skip == IF c.el.kind = "E" THEN rloc \in {AbsentV, EmptyV} ELSE rloc = AbsentV
         r    == CheckEL(c.binding, rloc) IN
       IF skip THEN pc' = "done" /\ result' = "ok" /\ UNCHANGED rloc
       ELSE IF r.err THEN pc' = "done" /\ result' = "error" /\ UNCHANGED rloc
       ELSE /\ pc' = "done" /\ result' = "ok"
            /\ rloc' = (IF r.v = Blank /\ c.el.kind = "IE" THEN AbsentV ELSE r.v)
  /\ UNCHANGED <<c, env, out, dom, loc, xname, slice, start>>

Next == DoRender \/ DoTokenize \/ ResolveName \/ MatchField \/ CheckStartElement \/ DecodeLate \/ CheckLocation \/ CheckResponseLocation
Spec == Init /\ [][Next]_vars

(***************************************************************************)
(*                  Properties (from the statement only)                   *)
(***************************************************************************)
Done == pc = "done"
IsForm == c.part = "form"
IsMeta == c.part = "meta"

\* --- forms -----------------------------------------------------------------
\* a value is script-bearing when, after the leading white space / control characters a browser
\* strips, it starts with a script scheme
Stripped == {"space", "newline", "nul"}
ScriptBearing(v) == \E i \in 1..Len(v) : v[i] = "js" /\ \A j \in 1..(i - 1) : v[j] \in Stripped
\* inert copy of a string: identical but for NUL, which cannot be carried by HTML (U+FFFD)
Inert(s) == [i \in 1..Len(s) |-> IF s[i] = "nul" THEN "repl" ELSE s[i]]
Unpct(x) == IF \E a \in Alphabet : PctName[a] = x THEN CHOOSE a \in Alphabet : PctName[a] = x ELSE x
PctDecode(v) == [i \in 1..Len(v) |-> Unpct(v[i])]

\* nodes the skeleton is expected to produce (an empty text run produces no token)
TextOf(nd) == IF nd.body.kind = "lit" THEN (IF nd.body.w = "" THEN <<>> ELSE <<nd.body.w>>) ELSE Inert(env[nd.body.w])
Visible(t) == SelectSeq(t, LAMBDA nd : nd.k # "text" \/ TextOf(nd) # <<>>)

AttrOK(da, ta) ==
  /\ da.n = ta.n
  /\ CASE ta.kind = "lit"  -> da.v = (IF ta.w = "" THEN <<>> ELSE <<ta.w>>)
       [] ta.kind = "slot" -> da.v = Inert(env[ta.w])                       \* the string, as an inert value
       [] ta.kind = "url"  -> /\ (PctDecode(da.v) = env[ta.w] \/ da.v = <<FilterConst>>)   \* intended action or filtered
                              /\ ~ScriptBearing(da.v)
NodeOK(dn, tn) ==
  /\ dn.k = tn.k /\ dn.name = tn.name
  /\ Len(dn.attrs) = Len(tn.attrs)
  /\ \A j \in 1..Len(tn.attrs) : AttrOK(dn.attrs[j], tn.attrs[j])
  /\ tn.k = "text" => dn.text = TextOf(tn)
StructureOK ==
  LET t == Visible(Template(c.form)) IN
  /\ Len(dom) = Len(t)
  /\ \A i \in 1..Len(t) : NodeOK(dom[i], t[i])

StructurePreserved == Done /\ IsForm => StructureOK
ActionOf(d) == LET fs == SelectSeq(d, LAMBDA n : n.k = "open" /\ n.name = "form") IN
               IF fs = <<>> THEN <<>> ELSE
               LET as == SelectSeq(fs[1].attrs, LAMBDA a : a.n = "action") IN IF as = <<>> THEN <<>> ELSE as[1].v
ScriptUrlsNeverInAction == Done /\ IsForm /\ ScriptBearing(env["URL"]) => ActionOf(dom) = <<FilterConst>>

FormClass == IF c.slot # "URL" THEN "MustAccept"
             ELSE IF ScriptBearing(env["URL"]) THEN "MustReject"     \* must not come out as a script URL
             ELSE IF Unsafe(env["URL"]) THEN "DontCare"              \* not script-bearing: kept or filtered, either is fine
             ELSE "MustAccept"                                       \* the intended action, exactly

\* --- metadata ----------------------------------------------------------------
\* "for the standard bindings, http or https URLs or else parsing fails; for unknown bindings blanked".
\* What a class of strings IS, from the definitions of a URL (RFC 3986 generic syntax, RFC 9110 http / https
\* URIs, the WHATWG URL standard) - not from what net/url does:
\*   NotUrl    not a URL under any of them: a control character in scheme, authority, path or query, an IPv6
\*             literal without its bracket, a port that is not a number, a percent sign without two hex digits,
\*             a blank in the host
\*   Lax       the definitions disagree or only the generic syntax admits it (no host, no "//", blank or raw
\*             non-ASCII / delimiter characters in the path, a malformed escape in the query, a U-label host),
\*             and a control character that sits behind the "#" only: the fragment never travels to a server,
\*             what is in front of it is an http(s) URL, and the statement's concern (the scheme that reaches a
\*             form action or redirect) is not touched - the statement does not rule on it
\*   WellFormed  an http(s) URL under all of them, however unusual (user name, IP literals, port, escapes,
\*             query, fragment, A-label host, long, no path, sub-delimiters)
NotUrl(v)     == v.shape \in {"ctlCR", "ctlLF", "ctlCRLF", "ctlTAB", "ctlDEL", "ctlC0",
                              "badBracket", "badPort", "badPctHost", "spaceHost", "badPctPath", "badPctFrag"}
Lax(v)        == v.shape \in {"emptyHost", "schemeOnly", "opaque", "spacePath", "badPctQuery", "idnU", "rawUnicode", "rawDelims",
                              "ctlFrag"}
WellFormed(v) == v.shape \in {"plain", "userinfo", "ipv6", "ipv4", "port", "pctPath", "query", "fragment", "idnA", "long",
                              "noPath", "subDelims"}
HttpPrefix(v) == v.scheme \in {"http", "https", "httpMixed"}
Blankish == {Blank, AbsentV, EmptyV}
\* a value that may be left in a parsed document: nothing, or an http(s)-schemed string that is not NotUrl
\* (in particular free of CR / LF / control characters in front of the fragment)
SafeValue(v) == v \in Blankish \/ (HttpPrefix(v) /\ ~NotUrl(v))
Target == IF c.attr = "Location" THEN loc ELSE rloc
Case == V(c.scheme, c.shape)

\* The statement speaks about "endpoint locations obtained by parsing metadata XML ... in every endpoint-bearing
\* element": whatever ends up in an endpoint slice of the parsed document, however the element was written and
\* whatever namespace it is in.  Only the duty to PRESERVE a good location is tied to the element being a genuine
\* metadata element (XML Namespaces: its expanded name is in MdNs, by whatever prefix or declaration): whether an
\* element of another namespace is an endpoint at all is left open - dropping it is as safe as keeping it.
GenuineMd == SpaceOf(c.ns) = MdNs
\* "Endpoint locations OBTAINED BY PARSING": the requirement is on the value that reaches the parsed endpoint's field.
\* Where the start element carries more than one attribute with the local name (AttrForms), which of them that is
\* is derived from the document as written (FieldVal: encoding/xml's rule); the case's value when it is the one,
\* the harmless companion otherwise ("absent" cannot happen: every form writes at least one).  The duty to PRESERVE
\* is not extended to these forms: the statement does not say which of two like-named attributes is the location.
Arrives == FieldVal(StartAttrs(c), c.attr)
MetaClass ==
  IF c.scheme = "empty" THEN "DontCare"                                   \* nothing to protect
  ELSE IF ~HttpPrefix(Arrives) THEN "MustReject"                          \* script schemes, blanks / controls in front, no scheme
  ELSE IF NotUrl(Arrives) THEN "MustReject"                               \* the right prefix, but not a URL
  ELSE IF c.binding \notin Known THEN "DontCare"                          \* blanked, says the statement; harmless if kept
  ELSE IF Lax(Arrives) \/ Arrives.scheme = "httpMixed" THEN "DontCare"    \* oddities the statement does not rule on
  ELSE IF ~GenuineMd THEN "DontCare"                                      \* a good location on an element outside the metadata namespace
  ELSE IF c.at # "single" THEN "DontCare"                                 \* a good location next to a like-named attribute
  ELSE "MustAccept"                                                       \* a well-formed http(s) URL on a standard binding
Required == CASE MetaClass = "MustReject" -> "error-or-blank"
              [] MetaClass = "MustAccept" -> "preserved"
              [] OTHER -> "safe"

SurvivorsSafe  == Done /\ IsMeta /\ result = "ok" => SafeValue(loc) /\ SafeValue(rloc)
RejectsHostile == Done /\ IsMeta /\ MetaClass = "MustReject" => result = "error" \/ Target \in Blankish
AcceptsGood    == Done /\ IsMeta /\ MetaClass = "MustAccept" => result = "ok" /\ Target = Case /\ Arrives = Case
UnknownBlanked == Done /\ IsMeta /\ c.binding \notin Known => result = "ok" /\ loc = (IF slice = "none" THEN AbsentV ELSE Blank) /\ rloc \in Blankish
\* the derivation itself: in this library every endpoint element written inside a descriptor reaches its slice,
\* in whatever namespace it is (the field tags name no namespace) - so none is exempt from the requirement
AllReachASlice == Done /\ IsMeta => slice = c.el.elem

(***************************** vector emission *****************************)
ASSUME \A f \in Forms : PrintT(<<"SKEL", ToJson([form |-> f, nodes |-> Template(f)])>>)

FormVec == [part |-> "form", form |-> c.form, slot |-> c.slot, base |-> c.base, s |-> c.s, class |-> FormClass,
            pred |-> [action |-> IF Unsafe(env["URL"]) THEN "filter" ELSE "input", ok |-> StructureOK]]
MetaVec == [part |-> "meta", desc |-> c.el.desc, elem |-> c.el.elem, kind |-> c.el.kind, attr |-> c.attr,
            binding |-> c.binding, scheme |-> c.scheme, shape |-> c.shape, ns |-> c.ns, space |-> xname.space, slice |-> slice,
            at |-> c.at, arrives |-> (IF Arrives = Case THEN "case" ELSE IF Arrives = Benign THEN "harmless" ELSE "other"),
            class |-> MetaClass, required |-> Required,
            pred |-> [result |-> result, value |-> IF result = "error" THEN "n/a" ELSE IF Target \in Blankish THEN "blank" ELSE "kept"]]
Emit == Done => PrintT(<<"VEC", ToJson(IF IsForm THEN FormVec ELSE MetaVec)>>)
=============================================================================
