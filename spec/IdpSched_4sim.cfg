CONSTANTS
  NProcs = 4
  Focus = "locks"
INIT Init
NEXT Next
INVARIANTS
  MutualExclusion
  PendingIsBlocked
  Emit
CHECK_DEADLOCK FALSE
