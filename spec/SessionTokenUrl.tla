--------------------------- MODULE SessionTokenUrl ---------------------------
(***************************************************************************)
(* C16 - Options.URL of a deployment of the samlsp middleware, and how     *)
(* samlsp.New derives from it the audience and issuer that the session     *)
(* codec (new.go:53-60 DefaultSessionCodec) and the tracked-request codec  *)
(* (new.go:84-92 DefaultTrackedRequestCodec) stamp into every token they   *)
(* mint and require of every token they decode:                            *)
(*      Audience = Issuer = opts.URL.String()                              *)
(* Shared by SessionToken.tla and SessionReplayHistory.tla.                *)
(*                                                                         *)
(* A URL is a record of class strings [host, path, query]:                 *)
(*   host   "sp"  https://sp.example.com                                   *)
(*          "SP"  the same origin written in another letter case           *)
(*          "sp2" another origin (other host, other scheme or other port)  *)
(*   path   "" (none) | "/" | "/wiki" | "/wiki/" | "/payroll" | "/payroll/"*)
(*   query  "" (none) | "t=a" | "t=b"                                      *)
(* net/url keeps every component as it was given (only the scheme is       *)
(* lower-cased), so URL.String() is injective on these classes: the record *)
(* itself stands for the string.                                           *)
(***************************************************************************)
CONSTANT AudienceIsUrlRoot   \* named deviation, FALSE in the code: the codecs are given the ROOT of the
                             \* deployment's URL - opts.URL.ResolveReference(&url.URL{Path: "/"}).String():
                             \* scheme and host as given, path "/", no query - instead of the URL ("sessions
                             \* have the scope of the session cookie").  TRUE is the design-level counterpart
                             \* of a code change C16 must catch: deployments that share key and origin and
                             \* differ in path or query then accept each other's tokens, and TLC reports the
                             \* cross-deployment invariants (SessionToken: OnlyMintedSessionTokensAuthenticate,
                             \* SessionReplayHistory: OnlyOwnFreshSessionTokens) violated.

Url(h, p, q) == [host |-> h, path |-> p, query |-> q]
Bare  == Url("sp", "", "")          \* https://sp.example.com
NoUrl == Url("-", "-", "-")         \* no deployment (a token assembled by hand)

UrlString(u) == u                                     \* url.URL.String()
UrlRoot(u)   == [u EXCEPT !.path = "/", !.query = ""]  \* ResolveReference(&url.URL{Path: "/"}).String()
\* new.go:56-57, :88-89 - the step samlsp.New takes for each of the two codecs
DeriveAudience(u) == IF AudienceIsUrlRoot THEN UrlRoot(u) ELSE UrlString(u)

\* SIBLINGS of a deployment: same key, same scheme and host, an Options.URL that differs from the
\* deployment's in exactly one respect (two applications behind one reverse proxy and one key pair)
SibClasses == {"sibPath", "sibQuery", "sibSlash", "sibCase"}
OtherPath(p) == CASE p = "/wiki" -> "/payroll" [] p = "/wiki/" -> "/payroll/"
                  [] p = "/payroll" -> "/wiki" [] p = "/payroll/" -> "/wiki/"
                  [] OTHER -> "/payroll/"
ToggleSlash(p) == CASE p = "" -> "/" [] p = "/" -> ""
                    [] p = "/wiki" -> "/wiki/" [] p = "/wiki/" -> "/wiki"
                    [] p = "/payroll" -> "/payroll/" [] p = "/payroll/" -> "/payroll"
Sibling(u, c) == CASE c = "sibPath"  -> [u EXCEPT !.path = OtherPath(@)]                          \* only the path
                   [] c = "sibQuery" -> [u EXCEPT !.query = IF @ = "t=a" THEN "t=b" ELSE "t=a"]   \* only the query
                   [] c = "sibSlash" -> [u EXCEPT !.path = ToggleSlash(@)]                        \* only a trailing slash
                   [] c = "sibCase"  -> [u EXCEPT !.host = IF @ = "sp" THEN "SP" ELSE "sp"]       \* only letter case of the host
OtherOrigin(u) == [u EXCEPT !.host = "sp2"]
\* Two URLs that differ only in the letter case of the host, or in an empty path against "/", are the same URL under
\* RFC 3986 normalisation: they name the same deployment, and whether a token minted under one spelling is honoured
\* under the other is left open (an implementation may normalise or compare the strings as given)
Norm(u) == [u EXCEPT !.host = IF @ = "SP" THEN "sp" ELSE @, !.path = IF @ = "" THEN "/" ELSE @]
SameDeployment(u, v) == Norm(u) = Norm(v)
=============================================================================
