----------------------------- MODULE IdPRespond -----------------------------
(***************************************************************************)
(* C06 - what the identity provider emits for a validated request or an    *)
(* IdP-initiated launch: DefaultAssertionMaker.MakeAssertion ->            *)
(* MakeAssertionEl (sign, then encrypt when the SP advertises a key) ->    *)
(* MakeResponse (response-level signature) -> PostBinding/WriteResponse.   *)
(*                                                                         *)
(* The pipeline is fed by the successful shapes of C05: the endpoint is    *)
(* the one designated by the rule of IdPRequestRule.  Each stage COMPUTES  *)
(* its part of the response record from (request, selected endpoint,       *)
(* registry entry, session, now); the Properties section states the        *)
(* equalities of the C06 statement on that record.  Text is symbolic:      *)
(* locations are names, identifiers are tokens ("reqid", "spEntity",       *)
(* "idpEntity"), session values are references to session fields,          *)
(* signatures are terms [over, method, key].  Time is ms relative to now.  *)
(***************************************************************************)
EXTENDS IdPRequestRule, TLC, Json

CONSTANT Tier      \* "q" | "t"

Now  == 0
Zero == -2000000000

\* tolerance settings (MaxIssueDelay, MaxClockSkew): default; delay far larger than skew; equal
S1 == [mid |-> 90000,   skew |-> 180000]
S2 == [mid |-> 3600000, skew |-> 1000]
S3 == [mid |-> 60000,   skew |-> 60000]
Settings == {S1, S2, S3}

\* position of the IdP clock relative to the request's IssueInstant
IIPos == {"before", "equal", "within", "beyond"}
AbsII(p, s) == CASE p = "before" -> 5000                    \* the clock is before the request's instant
                 [] p = "equal"  -> 0
                 [] p = "within" -> 0 - (s.skew \div 4)
                 [] p = "beyond" -> 0 - s.skew - 1000
                 [] OTHER -> Zero                            \* IdP-initiated: there is no request
Validatable(p, s) == AbsII(p, s) + s.mid > Now               \* C05 lets it through (off the boundary)

----------------------------------------------------------------------------
(* shapes *)
EP(b, i, d, l) == [b |-> b, idx |-> i, def |-> d, loc |-> l]
RegSimple == << << EP("POST", 1, "nil", "A") >> >>
Regs == { RegSimple,
          << << EP("POST", 0, "nil", "A"), EP("POST", 1, "nil", "B") >> >>,
          << << EP("POST", 1, "nil", "A"), EP("POST", 0, "true", "B"), EP("POST", 2, "nil", "C") >> >>,
          << << EP("Redirect", 0, "nil", "A"), EP("POST", 1, "nil", "B") >> >>,
          << << EP("Artifact", 0, "true", "A"), EP("POST", 1, "nil", "B") >> >>,
          << << EP("POST", 0, "nil", "A") >>, << EP("POST", 1, "nil", "B") >> >>,
          << << EP("POST", 1, "nil", "A"), EP("POST", 1, "nil", "B"), EP("POST", 2, "nil", "A") >> >> }

RA(f, m) == [fam |-> f, fmt |-> m]
AllFams == << RA("email", "basic"), RA("name", "unspec"), RA("given", "basic"), RA("sur", "basic"), RA("uid", "unspec"),
              RA("other", "basic"), RA("email", "uri"), RA("upper", "basic") >>
Svc(d, a) == [def |-> d, attrs |-> a]
SvcNone          == <<>>
SvcOne           == << Svc("nil", AllFams) >>
SvcSecondDefault == << Svc("nil", <<RA("email", "basic")>>), Svc("true", <<RA("uid", "basic"), RA("sur", "unspec")>>) >>
SvcNoDefault     == << Svc("nil", <<RA("given", "basic")>>), Svc("nil", <<RA("email", "basic")>>) >>
SvcFalseFirst    == << Svc("false", <<RA("name", "basic")>>), Svc("nil", <<RA("email", "basic")>>) >>
Svcs == {SvcNone, SvcOne, SvcSecondDefault, SvcNoDefault, SvcFalseFirst}

FieldNames == {"UserName", "UserEmail", "EPPN", "Surname", "GivenName", "CommonName", "Scoped"}
FieldSets == { {}, FieldNames, {"UserEmail", "EPPN"}, {"UserName", "UserEmail"} } \cup { {f} : f \in FieldNames }
Contents == {"plain", "xmlspecial", "unicode", "space", "tabnl", "cr"}
\* nid: the session's name identifier is "set" or the "empty" string (a user record without the field it is taken from)
\* exp: the session ends "far" from now or "soon" (30 s from now, inside MaxIssueDelay): the response's validity is counted
\* from issuance whatever is left of the session
Sess(f, g, c, n, s, t) == [fields |-> f, groups |-> g, custom |-> c, nidfmt |-> n, subj |-> s, content |-> t, nid |-> "set", exp |-> "far"]
BaseSess == Sess({"UserName", "UserEmail"}, 0, 0, FALSE, FALSE, "plain")

Keys == {"key", "signer", "both"}
Methods == {"unset", "sha1", "sha256", "sha384", "sha512"}
Idp(k, m, i) == [key |-> k, method |-> m, inter |-> i]
BaseIdp == Idp("key", "unset", 0)

\* reqsubj: the AuthnRequest carries a <saml:Subject> with a name identifier the REQUESTER wrote (saml-core 3.4.1)
BaseIn == [kind |-> "sso", alias |-> FALSE, reqsubj |-> FALSE, url |-> "absent", idx |-> "absent", iipos |-> "equal", reg |-> RegSimple,
           svc |-> SvcNone, enc |-> FALSE, sess |-> BaseSess, idp |-> BaseIdp, set |-> S1]

\* R: routing - requested index and URL agree, disagree, or are absent
\*    (alias: the registry knows the SP under a second name, its metadata URL, which the request uses as Issuer)
FamR == { [BaseIn EXCEPT !.kind = k, !.url = u, !.idx = x, !.reg = r, !.iipos = IF k = "sso" THEN "equal" ELSE "none",
                          !.alias = (a /\ k = "sso")] :
            k \in {"sso", "idpinit"}, u \in {"absent", "A", "B", "C"}, x \in {"absent", "n0", "n1", "n2"}, r \in Regs,
            a \in BOOLEAN }
\* A: session shapes x attribute-consuming services
FamA == { [BaseIn EXCEPT !.sess = Sess(f, g, c, n, s, "plain"), !.svc = v] :
            f \in FieldSets, g \in 0..2, c \in 0..1, n \in BOOLEAN, s \in BOOLEAN, v \in Svcs }
\* K: IdP configuration
FamK == { [BaseIn EXCEPT !.kind = k, !.idp = Idp(ky, m, i), !.enc = e, !.iipos = IF k = "sso" THEN "equal" ELSE "none"] :
            k \in {"sso", "idpinit"}, ky \in Keys, m \in Methods, i \in 0..1, e \in BOOLEAN }
\* T: clock positions under every tolerance setting
FamT == { [BaseIn EXCEPT !.set = s, !.iipos = p] : s \in Settings, p \in IIPos }
        \cup { [BaseIn EXCEPT !.kind = "idpinit", !.set = s, !.iipos = "none"] : s \in Settings }
\* C: content of the session strings under both signature digests, clear and encrypted
FamC == { [BaseIn EXCEPT !.sess = Sess(FieldNames, 2, 1, TRUE, TRUE, t), !.svc = SvcOne, !.enc = e, !.idp = Idp("key", m, 0)] :
            t \in Contents, e \in BOOLEAN, m \in {"unset", "sha256"} }
\* S: whose name identifier - the request proposes a subject, the session has or lacks one
FamS == { [BaseIn EXCEPT !.reqsubj = r, !.sess = [Sess(f, 1, 0, n, FALSE, "plain") EXCEPT !.nid = d], !.enc = e] :
            r \in BOOLEAN, d \in {"set", "empty"}, f \in { {}, {"UserName", "UserEmail"} }, n \in BOOLEAN, e \in BOOLEAN }
\* L: what is left of the session - under every tolerance setting, both launch kinds
FamL == { [BaseIn EXCEPT !.kind = k, !.sess = [BaseSess EXCEPT !.exp = "soon"], !.set = st, !.iipos = IF k = "sso" THEN p ELSE "none", !.enc = e] :
            k \in {"sso", "idpinit"}, st \in Settings, p \in {"equal", "within"}, e \in BOOLEAN }
\* X (thorough): routing x configuration x encryption, attributes x encryption x launch kind
FamX == { [r EXCEPT !.idp = Idp(ky, m, 0), !.enc = e, !.svc = SvcOne] : r \in FamR, ky \in {"key", "signer"}, m \in {"sha1", "sha512"}, e \in BOOLEAN }
        \cup { [a EXCEPT !.enc = TRUE, !.kind = k, !.iipos = IF k = "sso" THEN "equal" ELSE "none"] : a \in FamA, k \in {"sso", "idpinit"} }

VARIABLES in, pc, sel, assn, asig, wrapped, resp, rsig, form, verdict, step
vars == <<in, pc, sel, assn, asig, wrapped, resp, rsig, form, verdict, step>>

SSO == in.kind = "sso"
R   == in.reg
\* C05: the endpoint the rule designates (IdP-initiated: the first POST-binding endpoint)
Designated == IF SSO THEN Rule(R, CHOOSE u \in UrlReadings(in.url) : TRUE, CHOOSE i \in IdxReadings(in.idx) : TRUE)
              ELSE First(PostEPs(R))

Init == /\ in \in FamR \cup FamA \cup FamK \cup FamT \cup FamC \cup FamS \cup FamL \cup (IF Tier = "t" THEN FamX ELSE {})
        /\ SSO => Validatable(in.iipos, in.set)
        /\ Designated # None                       \* fed by C05's successful shapes only
        /\ pc = "MakeAssertion" /\ sel = Designated
        /\ assn = "none" /\ asig = "none" /\ wrapped = "none" /\ resp = "none" /\ rsig = "none" /\ form = "none"
        /\ verdict = "none" /\ step = "none"

----------------------------------------------------------------------------
(* the code, stage by stage *)
II   == AbsII(in.iipos, in.set)
Mid  == in.set.mid
Skew == in.set.skew
Has(f) == f \in in.sess.fields
IfSeq(c, x) == IF c THEN <<x>> ELSE <<>>

\* MakeAssertion :563-594 the default attribute-consuming service of the SELECTED endpoint's descriptor,
\* else its first one (metadata extras live in the first descriptor)
SvcsOfSel == IF sel[1] = 1 THEN in.svc ELSE <<>>
DefaultSvcs == { k \in DOMAIN SvcsOfSel : SvcsOfSel[k].def = "true" }
ChosenAttrs == IF DefaultSvcs # {} THEN SvcsOfSel[CHOOSE k \in DefaultSvcs : \A j \in DefaultSvcs : k <= j].attrs
               ELSE IF Len(SvcsOfSel) > 0 THEN SvcsOfSel[1].attrs ELSE <<>>
\* :596-653 requested attributes: basic/unspecified name format and a recognised name family
FieldOf(fam) == CASE fam = "email" -> "UserEmail" [] fam = "name" -> "CommonName" [] fam = "given" -> "GivenName"
                  [] fam = "sur" -> "Surname" [] fam = "uid" -> "UserName" [] OTHER -> "none"
Recognised(ra) == ra.fmt \in {"basic", "unspec"} /\ FieldOf(ra.fam) # "none"
RECURSIVE ReqAttrs(_)
ReqAttrs(s) == IF s = <<>> THEN <<>>
               ELSE (IF Recognised(Head(s)) THEN << [k |-> "req", n |-> Head(s).fam, fmt |-> Head(s).fmt, vals |-> <<FieldOf(Head(s).fam)>>] >> ELSE <<>>)
                    \o ReqAttrs(Tail(s))
Std(n, v) == [k |-> "std", n |-> n, fmt |-> "uri", vals |-> v]
\* :655-774 fixed order of the standard attributes (DESIGN Appendix B.3)
AttrList ==
  ReqAttrs(ChosenAttrs)
  \o IfSeq(Has("UserName"), Std("uid", <<"UserName">>))
  \o IfSeq(Has("UserEmail"), Std("mail", <<"UserEmail">>))
  \o IfSeq(Has("EPPN") \/ Has("UserEmail"), Std("eduPersonPrincipalName", <<IF Has("EPPN") THEN "EPPN" ELSE "UserEmail">>))
  \o IfSeq(Has("Surname"), Std("sn", <<"Surname">>))
  \o IfSeq(Has("GivenName"), Std("givenName", <<"GivenName">>))
  \o IfSeq(Has("CommonName"), Std("cn", <<"CommonName">>))
  \o IfSeq(Has("Scoped"), Std("scopedAffiliation", <<"Scoped">>))
  \o [j \in 1..in.sess.custom |-> [k |-> "custom", n |-> "custom", fmt |-> "custom", vals |-> <<"Custom">>]]
  \o IfSeq(in.sess.groups > 0, Std("eduPersonAffiliation", [j \in 1..in.sess.groups |-> IF j = 1 THEN "Group1" ELSE "Group2"]))
  \o IfSeq(in.sess.subj, Std("subject-id", <<"SubjectID">>))

\* :778-783 validity window on the requester's apparent clock
NB0 == Now - Skew
MakeAssertion ==
  /\ pc = "MakeAssertion"
  /\ assn' = [issuer    |-> "idpEntity",
              nameid    |-> [val |-> "NameID", fmt |-> IF in.sess.nidfmt THEN "session" ELSE "transient",
                             nq |-> "idpEntity", spnq |-> "spEntity"],
              recipient |-> RegLoc(At(R, sel)),
              irt       |-> IF SSO THEN "reqid" ELSE "absent",
              bearerNooa |-> Now + Mid,
              nb        |-> IF NB0 < II THEN II ELSE NB0,
              nooa      |-> IF NB0 < II THEN II + Mid ELSE Now + Mid,
              audience  |-> "spEntity",         \* the entity ID of the registered metadata, whatever name the request used
              attrs     |-> AttrList]
  /\ pc' = "SignAssertion"
  /\ UNCHANGED <<in, sel, asig, wrapped, resp, rsig, form, verdict, step>>

\* signingContext :1085-1123 Signer wins over Key; rsa-sha1 when no method is configured
SigMethod == IF in.idp.method = "unset" THEN "sha1" ELSE in.idp.method
SigKey    == "idpKey"      \* the key matching the IdP certificate: Key, or Signer when one is set ("both": Key is another key)
SignAssertion ==
  /\ pc = "SignAssertion"
  /\ asig' = [over |-> "assertion", method |-> SigMethod, key |-> SigKey, certs |-> 1 + in.idp.inter]
  /\ pc' = "Encrypt"
  /\ UNCHANGED <<in, sel, assn, wrapped, resp, rsig, form, verdict, step>>
\* MakeAssertionEl :873 encrypt to the key the selected endpoint's descriptor advertises
Encrypt ==
  /\ pc = "Encrypt"
  /\ wrapped' = IF in.enc /\ sel[1] = 1 THEN "encrypted" ELSE "clear"
  /\ pc' = "MakeResponse"
  /\ UNCHANGED <<in, sel, assn, asig, resp, rsig, form, verdict, step>>
\* MakeResponse :1042-1078
MakeResponse ==
  /\ pc = "MakeResponse"
  /\ resp' = [dest |-> RegLoc(At(R, sel)), irt |-> IF SSO THEN "reqid" ELSE "absent", issuer |-> "idpEntity", status |-> "Success"]
  /\ rsig' = [over |-> "response", method |-> SigMethod, key |-> SigKey, certs |-> 1 + in.idp.inter]
  /\ pc' = "PostBinding"
  /\ UNCHANGED <<in, sel, assn, asig, wrapped, form, verdict, step>>
\* PostBinding :934 only HTTP-POST endpoints are served
PostBinding ==
  /\ pc = "PostBinding"
  /\ IF At(R, sel).b # "POST"
       THEN form' = "none" /\ verdict' = "error" /\ step' = "UnsupportedBinding"
       ELSE form' = [method |-> "post", action |-> RegLoc(At(R, sel))] /\ verdict' = "form" /\ step' = "none"
  /\ pc' = "done"
  /\ UNCHANGED <<in, sel, assn, asig, wrapped, resp, rsig>>

Next == MakeAssertion \/ SignAssertion \/ Encrypt \/ MakeResponse \/ PostBinding
Spec == Init /\ [][Next]_vars

----------------------------------------------------------------------------
(* Properties - from the statement of C06 *)
Done    == pc = "done"
Emitted == Done /\ verdict = "form"
L == RegLoc(At(R, Designated))                 \* the selected registered ACS location
SessionRefs == {"NameID", "UserName", "UserEmail", "EPPN", "Surname", "GivenName", "CommonName", "Scoped",
                "Custom", "Group1", "Group2", "SubjectID"}

TargetsSelected  == Emitted => form.method = "post" /\ form.action = L /\ At(R, Designated).b = "POST"
Addressed        == Emitted => resp.dest = L /\ assn.recipient = L
AudienceIsSP     == Emitted => assn.audience = "spEntity"
AnswersRequest   == Emitted => LET want == IF SSO THEN "reqid" ELSE "absent" IN resp.irt = want /\ assn.irt = want
IssuedByIdP      == Emitted => resp.issuer = "idpEntity" /\ assn.issuer = "idpEntity"
OpensWithinSkew  == Emitted => assn.nb >= Now - Skew
BearerExpiry     == Emitted => assn.bearerNooa = Now + Mid
\* ("NameID" refers to the session's name identifier, empty or not - never to anything the request carried)
SessionOnly      == Emitted => /\ assn.nameid.val = "NameID"
                               /\ \A j \in DOMAIN assn.attrs : \A q \in DOMAIN assn.attrs[j].vals : assn.attrs[j].vals[q] \in SessionRefs
ConfiguredMethod == IF in.idp.method = "unset" THEN "sha1" ELSE in.idp.method
BothSigned       == Emitted => /\ asig.over = "assertion" /\ rsig.over = "response"
                               /\ asig.method = ConfiguredMethod /\ rsig.method = ConfiguredMethod
                               /\ asig.key = "idpKey" /\ rsig.key = "idpKey"

Class == IF At(R, Designated).b = "POST" THEN "MustAccept" ELSE "DontCare"

Emit == Done => PrintT(<<"VEC", ToJson([prop |-> "C06", in |-> in, ii |-> II, class |-> Class, sel |-> sel,
                                        exp |-> [verdict |-> verdict, step |-> step, form |-> form, resp |-> resp, assn |-> assn,
                                                 asig |-> asig, rsig |-> rsig, wrapped |-> wrapped, loc |-> L]])>>)
=============================================================================
