\* The named deviation SubjectFromUid is on, over the subject x uid-attribute family of part "map" only: TLC must
\* REFUTE ExposesExactlyTheAssertion (TestC16 breaks when the work directory holds no such counterexample).
CONSTANTS
  Family = "subj"
  EnforceMethods = TRUE
  EnforceSessMarker = TRUE
  EnforceTrkMarker = TRUE
  SessionEndRule = "ignore"
  CookieAgeOverridesExp = FALSE
  AudienceIsUrlRoot = FALSE
  PreflightBypass = FALSE
  SubjectFromUid = TRUE
INIT Init
NEXT Next
INVARIANTS
  ExposesExactlyTheAssertion
CHECK_DEADLOCK FALSE
