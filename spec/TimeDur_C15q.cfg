CONSTANTS
  Tier = "q"
INIT Init
NEXT Next
INVARIANTS
  DurRoundTrip
  DurTextIsXsd
  DurGrammar
  DurRegexIsXsd
  InstRoundTrip
  InstGrammar
  MdFixedPoint
  MdPreserves
  EsdFixedPoint
  ExactlyOneOutcome
  Emit
CHECK_DEADLOCK FALSE
