CONSTANTS
  Tier = "q"
  PointerReceiverMarshaller <- NoDeviation
  NestingBound = 1000
  CounterCountsElements = FALSE
  Families <- AllFamilies
INIT Init
NEXT Next
INVARIANTS
  DurRoundTrip
  DurTextIsXsd
  DurGrammar
  DurRegexIsXsd
  InstRoundTrip
  InstGrammar
  MdFixedPoint
  MdPreserves
  EsdFixedPoint
  NestingGuardKept
  GeneratedReparses
  SlotsRoundTrip
  ExactlyOneOutcome
  Emit
CHECK_DEADLOCK FALSE
