CONSTANTS
  MaxRoles = 3
INIT Init
NEXT Next
INVARIANTS
  NeverInClear
  Emit
CHECK_DEADLOCK FALSE
