CONSTANTS
  Tier = "t"
  Unguarded = {}
  Unwrapped = {}
  DepthRestore = "parent"
  ContextDropped = FALSE
INIT Init
NEXT Next
INVARIANTS
  NoPanic
  NoHang
  ResultOrError
  AssertionIffNoError
  ErrorShape
  BombRefused
  Emit
CHECK_DEADLOCK TRUE
