CONSTANTS
  Tier = "t"
  Unguarded = {}
  Unwrapped = {}
  DepthRestore = "parent"
INIT Init
NEXT Next
INVARIANTS
  NoPanic
  ResultOrError
  AssertionIffNoError
  ErrorShape
  BombRefused
  Emit
CHECK_DEADLOCK TRUE
