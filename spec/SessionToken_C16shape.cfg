\* The named deviation PreflightBypass is on, over the request-shape family only: TLC must REFUTE
\* OnlyMintedSessionTokensAuthenticate (TestC16 breaks when the work directory holds no such counterexample).
CONSTANTS
  Family = "shape"
  EnforceMethods = TRUE
  EnforceSessMarker = TRUE
  EnforceTrkMarker = TRUE
  SessionEndRule = "ignore"
  CookieAgeOverridesExp = FALSE
  AudienceIsUrlRoot = FALSE
  PreflightBypass = TRUE
  SubjectFromUid = FALSE
INIT Init
NEXT Next
INVARIANTS
  OnlyMintedSessionTokensAuthenticate
CHECK_DEADLOCK FALSE
