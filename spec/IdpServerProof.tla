--------------------------- MODULE IdpServerProof ---------------------------
(***************************************************************************)
(* TLAPS: the in-memory registry of the bundled IdP server is the image of *)
(* the stored services in every reachable state - for ANY sets of users,   *)
(* service names, entity IDs, shortcuts and any number of session slots,   *)
(* with or without store faults.  This is what makes a restart             *)
(* unobservable (TLC checks it for the small constants of the cfgs).       *)
(***************************************************************************)
EXTENDS IdpServerCore, TLAPS

THEOREM InitReg == Init => RegistryIsImageOfStore
  BY DEF Init, RegistryIsImageOfStore

THEOREM StepReg == RegistryIsImageOfStore /\ [Next]_vars => RegistryIsImageOfStore'
<1> SUFFICES ASSUME RegistryIsImageOfStore, [Next]_vars PROVE RegistryIsImageOfStore'
  OBVIOUS
<1>1. CASE UNCHANGED vars
  BY <1>1 DEF RegistryIsImageOfStore, vars
<1>2. CASE Request
  <2>1. ASSUME NEW n \in SvcNames, NEW e \in Eids, PutService(n, e) PROVE RegistryIsImageOfStore'
    BY <2>1 DEF RegistryIsImageOfStore, PutService
  <2>2. ASSUME NEW n \in SvcNames, DeleteService(n) PROVE RegistryIsImageOfStore'
    BY <2>2 DEF RegistryIsImageOfStore, DeleteService, Unch
  <2>3. ASSUME Unch(<<services, registry>>) PROVE RegistryIsImageOfStore'
    BY <2>3 DEF RegistryIsImageOfStore, Unch
  <2> QED
    BY <1>2, <2>1, <2>2, <2>3 DEF Request, PutUser, DeleteUser, GetUser, GetService, PutShortcut, DeleteShortcut,
       DeleteSession, List, Login, LoginCookie, SSO, SSOLogin, Shortcut, Unch
<1>3. CASE Tick
  BY <1>3 DEF RegistryIsImageOfStore, Tick, Unch
<1>4. CASE Restart
  BY <1>4 DEF RegistryIsImageOfStore, Restart, Unch
<1>5. CASE FailedRequest
  BY <1>5 DEF RegistryIsImageOfStore, FailedRequest, Unch
<1> QED
  BY <1>1, <1>2, <1>3, <1>4, <1>5 DEF Next

THEOREM RegistryAlwaysImage == Spec => []RegistryIsImageOfStore
  BY InitReg, StepReg, PTL DEF Spec
=============================================================================
