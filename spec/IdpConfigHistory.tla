-------------------------- MODULE IdpConfigHistory --------------------------
(***************************************************************************)
(* C06, histories on ONE IdentityProvider value: its public fields Key,    *)
(* Signer, Certificate and SignatureMethod are reassigned between          *)
(* responses (key roll-over, moving the key into an HSM, method upgrade).  *)
(* Which key and method sign a response must depend only on the            *)
(* configuration in force when the response is made - never on what the    *)
(* same value signed before (a signing context cached across requests).    *)
(* TLC enumerates every sequence of MaxLen configurations with at least    *)
(* one change; the harness replays each on a single IdentityProvider,      *)
(* serving one request after every reassignment, and verifies both         *)
(* enveloped signatures under the certificate and with the method of the   *)
(* configuration in force (harness/idp_config_history_test.go).            *)
(***************************************************************************)
EXTENDS Integers, Sequences, TLC, Json

CONSTANTS MaxLen

Pairs   == {"idp1", "idp2"}                  \* key pairs (private key + its certificate)
Sources == {"key", "signer", "both"}          \* Key field | Signer field | Signer set and Key holding the OTHER pair's key
Methods == {"unset", "sha1", "sha256", "sha512"}
Cfgs == { [pair |-> p, src |-> s, method |-> m] : p \in Pairs, s \in Sources, m \in Methods }

\* what the statement requires of a response made under configuration c: signed by c.pair's key
\* (the external signer wins over the private-key field), with the configured method (default: rsa-sha1)
Required(c) == [by |-> c.pair, method |-> IF c.method = "unset" THEN "sha1" ELSE c.method]

\* ab: before this step's request another user's response was cut off in mid-write (the client went away after part of
\* the form).  What one request leaves behind - in the IdentityProvider value or anywhere in the process - is no part of
\* the next response: it is ONE form, with the data of its own session only
VARIABLES hist
Init == hist = <<>>
Step(c, ab) == Len(hist) < MaxLen /\ hist' = Append(hist, [cfg |-> c, req |-> Required(c), ab |-> ab])
Next == \E c \in Cfgs, ab \in BOOLEAN : Step(c, ab)

HistoryFree == \A i \in DOMAIN hist : hist[i].req = Required(hist[i].cfg)
\* every two consecutive configurations differ (a history without change exercises nothing new)
Interesting == Len(hist) >= 2 /\ \A i \in 1..(Len(hist) - 1) : hist[i].cfg # hist[i + 1].cfg
\* (the cut-off response is tried in front of the first and of the last step only)
AbortsAtEnds == \A i \in DOMAIN hist : hist[i].ab => i \in {1, MaxLen}
Emit == (Len(hist) = MaxLen /\ Interesting /\ AbortsAtEnds) => PrintT(<<"CHIST", ToJson([steps |-> hist])>>)
=============================================================================
