CONSTANTS
  Tier = "t"
  Unguarded = {}
  EveryRoleTrusted = FALSE
INIT Init
NEXT Next
INVARIANTS
  RejectsBad
  AcceptsGood
  ValidOnlyIfSignedFreshAddressed
  Total
  Emit
CHECK_DEADLOCK FALSE
