CONSTANTS
  Family = "C16q"
  EnforceMethods = TRUE
  EnforceSessMarker = TRUE
  EnforceTrkMarker = TRUE
  SessionEndRule = "ignore"
  CookieAgeOverridesExp = FALSE
  AudienceIsUrlRoot = FALSE
  PreflightBypass = FALSE
  SubjectFromUid = FALSE
INIT Init
NEXT Next
INVARIANTS
  OnlyMintedSessionTokensAuthenticate
  FreshMintedSessionAuthenticates
  AuthenticatedImpliesGenuine
  NoSessionStartsFlow
  ExactlyOneOutcome
  TrackerRefusesSessionTokens
  ExposesExactlyTheAssertion
  GateOnlyWithValue
  NothingLengthensTheSession
  FreshBeforeEveryEndAuthenticates
  LifeExposesExactlyTheAssertion
  EmitTok
  EmitMap
  EmitLife
CHECK_DEADLOCK FALSE
