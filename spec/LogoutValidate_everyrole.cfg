\* Not a registered phase.  getIDPSigningCerts reading the key descriptors of every role
\* descriptor of the IdP's entity (SPSSODescriptor, AttributeAuthorityDescriptor) and not only
\* of the IDPSSODescriptors: TLC refutes RejectsBad (trust = role_sp / role_aa / role_only,
\* signer = the key published for the other role).
CONSTANTS
  Tier = "q"
  Unguarded = {}
  EveryRoleTrusted = TRUE
INIT Init
NEXT Next
INVARIANTS
  RejectsBad
CHECK_DEADLOCK FALSE
