---------------------------- MODULE TimeDurTrace ----------------------------
(***************************************************************************)
(* Trace validation for C15 (reverse direction).                           *)
(*                                                                         *)
(* trace.ndjson holds one event per line, recorded by the harness from the *)
(* REAL saml.Duration / saml.RelaxedTime on seeded random values:          *)
(*   {"k":"dur",  "how":mode, "d":{neg,h,m,s,f}, "text":[chars],           *)
(*    "ok":bool, "back":{neg,h,m,s,f}, "dev":""}                           *)
(*   {"k":"inst", "how":mode, "t":{y,mo,d,h,mi,s,ms,sub,off},              *)
(*    "text":[chars], "ok":bool, "back":{y,mo,d,h,mi,s,ms}, "dev":""}      *)
(* "how" is the hand-over mode (direct call, XML attribute / element,      *)
(* JSON string; by value, by pointer, in a slice, a map, an interface).    *)
(* Every event is validated by evaluating the specification's own          *)
(* DMarshal / DUnmarshal / IMarshal / IUnmarshal on the logged value and    *)
(* text.  Events the harness has already reported as violations carry a    *)
(* non-empty "dev" (the violation key) and are only counted.               *)
(***************************************************************************)
EXTENDS TimeDur

VARIABLE l

TraceLog == ndJsonDeserialize("trace.ndjson")

\* every event names the hand-over mode it went through (spec TextHows); "text" is the text the carrier held
HowNamed(n) == CHOOSE h \in TextHows : h.n = n

DurEventOk(e) ==
  LET h == HowNamed(e.how)
      r == DUnmarshalVia(h.car, e.text) IN
  /\ e.text = DurTextVia(h, e.d)                 \* the real text is the text the spec writes in this mode
  /\ r.ok = e.ok                                  \* the real parser's verdict on it (through the same carrier)
  /\ e.ok => ~r.ovf /\ r.d = e.back /\ r.d = e.d  \* its value, and the round trip

InstEventOk(e) ==
  LET h == HowNamed(e.how)
      r == IUnmarshal(e.text) IN
  /\ Found("RelaxedTime", h)
  /\ \E u \in Want(e.t) : e.text = IFormat(u)    \* the rounded UTC instant, formatted (an exact half may go either way)
  /\ r.ok = e.ok
  /\ e.ok => r.t = e.back /\ r.t \in Want(e.t)

EventOk(e) == \/ e.dev # ""
              \/ e.k = "dur"  /\ DurEventOk(e)
              \/ e.k = "inst" /\ InstEventOk(e)

TInit == /\ TLCSet(1, 0)
         /\ l = 1
         /\ kind = "trace" /\ vec = <<>> /\ how = CallHow /\ pc = "trace" /\ text = <<>> /\ back = <<>>

TNext == /\ l <= Len(TraceLog)
         /\ EventOk(TraceLog[l])
         /\ l' = l + 1
         /\ UNCHANGED vars

\* CONSTRAINT (always true): remembers how far the log was accepted; -workers 1
HighWater == TLCSet(1, IF TLCGet(1) < l THEN l ELSE TLCGet(1))
\* POSTCONDITION
Accepted == /\ TLCGet(1) = Len(TraceLog) + 1
            /\ PrintT(<<"TRACES", Len(TraceLog)>>)
=============================================================================
