CONSTANTS
  SPs = {"A", "B"}
  AllowInit = {"B"}
  MaxResps = 2
  MaxTicks = 1
INIT Init
NEXT Next
VIEW View
INVARIANT SessionImpliesAuthenticated
PROPERTIES
  SessionOnlyThroughOwnResponse
  NoUnsolicitedWithoutOptIn
  StaleIsRefused
  ResponsesOnlyWhenEntitled
  FaithfulRunCompletes
  SessionsEnd
  EmitEdge
CHECK_DEADLOCK FALSE
