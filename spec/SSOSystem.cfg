CONSTANTS
  SPs = {"A", "B"}
  MaxResps = 2
INIT Init
NEXT Next
VIEW View
INVARIANT SessionImpliesAuthenticated
PROPERTIES
  SessionOnlyThroughOwnResponse
  ResponsesOnlyWhenEntitled
  FaithfulRunCompletes
  EmitEdge
CHECK_DEADLOCK FALSE
