\* The named deviation AudienceIsUrlRoot is on: TLC must REFUTE OnlyOwnFreshSessionTokens
\* (the replay harness breaks when the work directory holds no such counterexample).
CONSTANTS
  MaxLen = 1
  Minters <- Names
  Fams <- FamsDeep
  DeepLen = 1
  DeepMinters <- MintersTwo
  DeepFams <- FamsDeep
  SibFams <- FamsDeep
  ProcessWideCache = FALSE
  AudienceIsUrlRoot = TRUE
INIT Init
NEXT Next
INVARIANTS
  OnlyOwnFreshSessionTokens
CHECK_DEADLOCK FALSE
