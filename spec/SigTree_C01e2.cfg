CONSTANTS
  K = 2
  MaxNodes = 12
  BaseSet <- ArtBases
  RunCfgSeq <- RunsEnv
  Prods <- AllProds
  KISet <- KIClassic
  EnvWhereSet <- EnvWheres
  Deviations = {}
  EmitMin = 2
  EmitFrom = 2
  EmitMod = 32
INIT Init
NEXT Next
INVARIANTS
  AllProps
CHECK_DEADLOCK FALSE
