CONSTANTS
  NProcs = 3
  Focus = "locks"
INIT Init
NEXT Next
INVARIANTS
  MutualExclusion
  PendingIsBlocked
  Emit
CHECK_DEADLOCK FALSE
