------------------------------- MODULE SPEmit -------------------------------
(***************************************************************************)
(* The service provider's OUTBOUND side (C12, C13): creation of            *)
(* AuthnRequest / LogoutRequest / LogoutResponse / ArtifactResolve, the    *)
(* signing-context decision, the HTTP-Redirect and HTTP-POST encoders, and *)
(* a standards-conforming receiver that decodes what was emitted.          *)
(*                                                                         *)
(* Text (relay state, name ID) is a sequence of one-character CLASS names  *)
(* (TLC strings are atomic) plus run tokens "L79".."L300" that stand for   *)
(* that many plain characters.  The wire form is a sequence of tokens      *)
(*    [t |-> "lit"|"amp"|"eq"|"raw"|"enc"|"blob", v |-> ...]               *)
(* "raw c" is a character of class c written as is, "enc c" the same       *)
(* character escaped for the context (percent/plus in a query, an entity   *)
(* in HTML or XML), "blob" an opaque escaped payload (base64 text, which   *)
(* contains no metacharacter once escaped), "amp"/"eq" the separators the  *)
(* encoder itself writes.                                                  *)
(*                                                                         *)
(* The step machine follows service_provider.go: one action per stage      *)
(* (Create, SelectSigning, Serialize, Assemble, SignQuery, Transmit,       *)
(* Parse).  Every stage computes two variants side by side:                *)
(*    "req"  the behaviour the statements REQUIRE (no deviation), and      *)
(*    "pin"  the pinned tree, i.e. "req" plus the named deviations         *)
(*           RelayStateNotEscaped  (AuthnRequest.Redirect :320  query +=   *)
(*                                  "&RelayState=" + relayState)           *)
(*           SignsExistingQuery    (:326 SignString(query) where query     *)
(*                                  starts with the endpoint's own query). *)
(* TLC checks the Properties section (written from the statements) on the  *)
(* "req" variant - the design is sound on the whole abstract domain - and  *)
(* prints for every case the class and BOTH predictions; the harness runs  *)
(* the real code on concretisations and judges it against the statement.   *)
(*                                                                         *)
(* Three further dimensions (round 3):                                     *)
(*  - WHERE the message is sent: the idpURL the caller hands to Make* is    *)
(*    the first location of sp.IDPMetadata for the binding (what the        *)
(*    one-step Make*Redirect* / Make*Post* functions and samlsp pass),      *)
(*    another location of the same metadata, or a URL the metadata does     *)
(*    not list, each with its own query string; and sp.IDPMetadata may be   *)
(*    REPLACED between creation and rendering (variable md, action          *)
(*    ReplaceMetadata).  The encoders write to msg.dest (variable target).  *)
(*  - the configured signature-method STRING: one of the eight URIs, or a   *)
(*    string that is not among them although it resembles one (padded with  *)
(*    white space, other letter case, trailing slash / fragment), or an     *)
(*    unrelated unknown string (cfg.method x cfg.mform).                    *)
(*  - histories of renderings of one message value: SPEmitRenderHistory.    *)
(*                                                                         *)
(* Two dimensions of the ENVIRONMENT the signing clauses of C13 quantify    *)
(* over silently (round 5):                                                 *)
(*  - what the IdP's metadata says about signed requests: the attribute     *)
(*    WantAuthnRequestsSigned of its IDPSSODescriptor is absent, "true" or  *)
(*    "false" (cfg.idpwants).  The statement makes the signature depend on  *)
(*    the SP's configuration alone ("when request signing is configured"):  *)
(*    whether a message is signed, or refused, never reads cfg.idpwants.    *)
(*  - the SP's certificate chain: sp.Intermediates holds no, one or two CA  *)
(*    certificates (cfg.chain).  sp.Metadata() publishes sp.Certificate     *)
(*    followed by the intermediates in the signing KeyDescriptor            *)
(*    (Published); every message is signed with sp.Key, whose certificate   *)
(*    is sp.Certificate (SignedBy, KeyInfoCerts).  "The certificate in the  *)
(*    SP's published metadata" is the FIRST certificate of that             *)
(*    KeyDescriptor (VerifierCert): the signature must verify under it.     *)
(*                                                                         *)
(* WHO emits the AuthnRequest, and what it asks for (round 6):              *)
(*  - the emission path (in.path): the application calls the               *)
(*    ServiceProvider itself ("direct": it hands Make* the binding it then *)
(*    renders with), or samlsp.Middleware.HandleStartAuthFlow does          *)
(*    ("middleware"): the binding is CHOSEN there from Middleware.Binding   *)
(*    (cfg.mwbinding: default "" / explicit redirect / explicit post) and   *)
(*    from what the IdP's metadata offers for single sign-on (cfg.offers:   *)
(*    redirect only / post only / both), handed to                          *)
(*    MakeAuthenticationRequest (Handed) and used again to pick Redirect()  *)
(*    or Post().  The statement's signing clauses speak about what is       *)
(*    EMITTED: signed whenever a method is configured, refused when method  *)
(*    and key do not fit - on every path, whatever was chosen and why.      *)
(*  - the RESULT binding (in.result): ProtocolBinding of the AuthnRequest,  *)
(*    HTTP-POST or HTTP-Artifact (samlsp Options.UseArtifactResponse).  The *)
(*    SP's own metadata registers its ACS URL twice (SpAcsEndpoints: index  *)
(*    1 HTTP-POST, index 2 HTTP-Artifact); this library's IdP looks the     *)
(*    request's AssertionConsumerServiceURL up in it (IdpAcs) and must      *)
(*    find it for either result binding (C12: IdpFindsAcs).                 *)
(* Seeded deviations (constant Seeded, empty in every registered            *)
(* enumeration; TLC must REFUTE the named invariant when one is on):        *)
(*    HandsConfiguredBinding   the middleware hands Middleware.Binding      *)
(*                             instead of the chosen binding to Make*       *)
(*                             (refutes CarriesSignature / RefusesMismatch) *)
(*    AcsLookupStopsAtFirst    the IdP requires the FIRST endpoint with the *)
(*                             request's ACS URL to have the requested      *)
(*                             binding (refutes IdpFindsAcs)                *)
(***************************************************************************)
EXTENDS Integers, Sequences, FiniteSets, TLC, Json

CONSTANTS Family,      \* "C12q" | "C12t" | "C13q" | "C13t"
          IdBytes,     \* bytes drawn from RandReader per message ID (pinned tree: 20)
          MaxSeq,      \* bound on the length of creation sequences (ID freshness)
          Seeded       \* names of seeded deviations switched on ({} in every registered enumeration)

MinIdBytes == 16       \* "at least 128 bits drawn from the configured random source"

PinnedDeviations == {"RelayStateNotEscaped", "SignsExistingQuery"}
Variants == {"req", "pin"}
Dev(v) == IF v = "pin" THEN PinnedDeviations ELSE {}

----------------------------------------------------------------------------
(* alphabets *)

Chars == {"plain", "amp", "eq", "hash", "plus", "pct", "space", "dquote", "squote", "lt", "nonascii", "semicolon"}
Runs  == {"L79", "L80", "L81", "L300"}          \* length classes 0 and 1 are <<>> and <<"plain">>
IsPlain(c) == c = "plain" \/ c \in Runs

StringsUpTo(n) == UNION { [1..k -> Chars] : k \in 0..n }
LengthTexts    == { <<r>> : r \in Runs }

Queries  == {"none", "ab", "abc"}               \* endpoint query: none | a=b | a=b&c
\* where the message is sent, relative to sp.IDPMetadata at creation: its first location for the binding,
\* another location of the same metadata, a URL the metadata does not list
Dests    == {"first", "second", "custom"}
Kinds    == {"authn", "logoutreq", "logoutresp", "artifact"}
Bindings == {"redirect", "post"}

RsaMethods == {"rsa-sha1", "rsa-sha256", "rsa-sha384", "rsa-sha512"}
EcMethods  == {"ecdsa-sha1", "ecdsa-sha256", "ecdsa-sha384", "ecdsa-sha512"}
Methods    == RsaMethods \cup EcMethods
MethodCfgs == Methods \cup {"unknown", ""}      \* "" = signing not configured
\* how the configured string relates to the URI cfg.method names: the URI itself, or a string that is
\* NOT that URI although it resembles it (white space around it / a trailing newline, another letter
\* case, a trailing slash or fragment).  Only "exact" strings are among the eight method URIs.
MethodForms == {"exact", "padded", "case", "suffixed"}
NearForms   == MethodForms \ {"exact"}
RsaKeys == {"rsa1024", "rsa2048", "rsa3072", "rsa4096"}
EcKeys  == {"ec256", "ec384", "ec521"}
Keys    == RsaKeys \cup EcKeys

\* the IdP's metadata: attribute WantAuthnRequestsSigned of the IDPSSODescriptor (metadata.go:403, a *bool)
IdpWants == {"absent", "true", "false"}
\* sp.Intermediates (service_provider.go:80): the CA certificates between sp.Certificate and the trust anchor
Chains   == {"none", "one", "two"}

\* who emits the AuthnRequest: the application through ServiceProvider, or samlsp.Middleware.HandleStartAuthFlow
Paths      == {"direct", "middleware"}
\* which bindings the IdP's metadata offers a SingleSignOnService for
Offers     == {"both", "redirect", "post"}
\* samlsp.Middleware.Binding: "" (what samlsp.New leaves), or set explicitly
MwBindings == {"default", "redirect", "post"}
\* the binding the response is asked for: ProtocolBinding of the AuthnRequest (Middleware.ResponseBinding)
Results    == {"post", "artifact"}

NidFmts == {"unset", "transient", "unspecified", "email", "persistent"}
Forces  == {"nil", "true", "false"}

Tok(t, v) == [t |-> t, v |-> v]
Lit(s)    == Tok("lit", s)
Blob(s)   == Tok("blob", s)
AMP == Tok("amp", "")
EQ  == Tok("eq", "")

VARIABLES cfg,      \* [query, method, mform, key, nidfmt, force, rac, idpwants, chain, offers, mwbinding]
          in,       \* [fam, kind, binding, relay, nameid, dest, swap, path, result]
          md,       \* sp.IDPMetadata now: the locations for the service and binding in use, in document order
          target,   \* [Variants -> endpoint] the URL the encoder writes the message to
          pc,
          rnd,      \* position in the RandReader stream
          ids,      \* IDs issued so far: sequence of [kind, from, to]
          msg,      \* the message under construction (symbolic fields)
          outcome,  \* "none" | "ok" | "error"
          sigform,  \* signature attached: "none" | "enveloped" | "detached"
          wire,     \* [Variants -> token sequence]  query string / form fields as emitted
          signed,   \* [Variants -> token sequence]  octets handed to SignString
          recv,     \* [Variants -> token sequence]  what reaches the receiver's query parser
          params    \* [Variants -> sequence of [n, v]] decoded by the standards parser
vars == <<cfg, in, md, target, pc, rnd, ids, msg, outcome, sigform, wire, signed, recv, params>>

----------------------------------------------------------------------------
(* input families *)

BaseCfg == [query |-> "none", method |-> "", mform |-> "exact", key |-> "rsa2048", nidfmt |-> "unset", force |-> "nil", rac |-> FALSE,
            idpwants |-> "absent", chain |-> "none", offers |-> "both", mwbinding |-> "default"]
InAt(f, k, b, rs, nid, d, sw) == [fam |-> f, kind |-> k, binding |-> b, relay |-> rs, nameid |-> nid, dest |-> d, swap |-> sw,
                                  path |-> "direct", result |-> "post"]
\* an AuthnRequest emitted on path p asking for the response over r
InVia(f, b, rs, p, r) == [InAt(f, "authn", b, rs, <<>>, "first", FALSE) EXCEPT !.path = p, !.result = r]

\* samlsp/middleware.go:137-151 HandleStartAuthFlow: Middleware.Binding if set, otherwise HTTP-Redirect when the
\* IdP's metadata has a location for it (GetSSOBindingLocation # ""), otherwise HTTP-POST
ChosenOf(offers, mwb) == IF mwb # "default" THEN mwb
                         ELSE IF offers \in {"redirect", "both"} THEN "redirect" ELSE "post"
\* consistent middleware settings: a binding set explicitly is one the IdP offers
MwEnvs == { e \in Offers \X MwBindings : e[2] = "default" \/ e[1] \in {e[2], "both"} }
In(f, k, b, rs, nid) == InAt(f, k, b, rs, nid, "first", FALSE)
NidFor(k) == IF k = "logoutreq" THEN <<"plain">> ELSE <<>>

Texts(n) == StringsUpTo(n) \cup LengthTexts

\* The families are predicates over (cfg, in) rather than one big set of cases: TLC enumerates
\* nested quantifiers linearly, while normalising a set of 10^5 records is quadratic.

\* relay-state strings through every binding of every browser-carried kind
FamRelay(n) ==
  \E q \in Queries, m \in {"", "rsa-sha256"}, k \in Kinds \ {"artifact"}, b \in Bindings, rs \in Texts(n) :
      /\ cfg = [BaseCfg EXCEPT !.query = q, !.method = m]
      /\ in = In("relay", k, b, rs, NidFor(k))
\* name-ID strings through the logout request
FamNameID(n) ==
  \E m \in {"", "rsa-sha256"}, b \in Bindings, rs \in {<<>>, <<"plain">>}, nid \in Texts(n) :
      /\ cfg = [BaseCfg EXCEPT !.method = m]
      /\ in = In("nameid", "logoutreq", b, rs, nid)
\* configuration: name-ID format, ForceAuthn, RequestedAuthnContext
FamConfig ==
  \/ \E q \in {"none", "abc"}, mk \in {<<"", "rsa2048">>, <<"rsa-sha256", "rsa2048">>, <<"ecdsa-sha256", "ec256">>},
        f \in NidFmts, fa \in Forces, r \in BOOLEAN, b \in Bindings :
      /\ cfg = [BaseCfg EXCEPT !.query = q, !.method = mk[1], !.key = mk[2], !.nidfmt = f, !.force = fa, !.rac = r]
      /\ in = In("config", "authn", b, <<"plain">>, <<>>)
  \/ \E f \in NidFmts, b \in Bindings :
      /\ cfg = [BaseCfg EXCEPT !.nidfmt = f]
      /\ in = In("config", "logoutreq", b, <<"plain">>, <<"plain">>)
\* C13: method x key table through every kind and binding
SigRelaysQ == { <<>>, <<"plain">>, <<"space", "nonascii">>, <<"amp", "eq">> }
SigRelaysT == StringsUpTo(1) \cup SigRelaysQ \cup { <<"L81">>, <<"plus", "pct">>, <<"semicolon", "dquote">> }
FamSig(relays, queries) ==
  \/ \E q \in queries, m \in MethodCfgs, ky \in Keys, k \in Kinds \ {"artifact"}, b \in Bindings, rs \in relays :
      /\ cfg = [BaseCfg EXCEPT !.query = q, !.method = m, !.key = ky]
      /\ in = In("sig", k, b, rs, NidFor(k))
  \/ \E m \in MethodCfgs, ky \in Keys :
      /\ cfg = [BaseCfg EXCEPT !.method = m, !.key = ky]
      /\ in = In("sig", "artifact", "soap", <<>>, <<>>)
  \* the signature covers what is emitted whatever the message carries: every content setting of the
  \* AuthnRequest (name-ID format, ForceAuthn, RequestedAuthnContext) under a signing configuration
  \/ \E mk \in {<<"rsa-sha256", "rsa2048">>, <<"rsa-sha1", "rsa2048">>, <<"ecdsa-sha256", "ec256">>},
        f \in NidFmts, fa \in Forces, r \in BOOLEAN, b \in Bindings :
      /\ cfg = [BaseCfg EXCEPT !.method = mk[1], !.key = mk[2], !.nidfmt = f, !.force = fa, !.rac = r]
      /\ in = In("sig", "authn", b, <<"plain">>, <<>>)
\* WHERE the message is sent: every kind and binding made for the metadata's first location, another
\* location of the same metadata or a URL outside the metadata (each with every endpoint query), rendered
\* at once or after sp.IDPMetadata has been replaced ((first, no swap) is FamRelay's case)
DestRelays == { <<>>, <<"plain">>, <<"amp", "eq">> }
FamDest ==
  \E d \in Dests, sw \in BOOLEAN, q \in Queries, m \in {"", "rsa-sha256"}, k \in Kinds \ {"artifact"}, b \in Bindings, rs \in DestRelays :
      /\ ~(d = "first" /\ ~sw)
      /\ cfg = [BaseCfg EXCEPT !.query = q, !.method = m]
      /\ in = InAt("dest", k, b, rs, NidFor(k), d, sw)
\* C13: the same for the signed octets "as they appear in the emitted URL" and the enveloped forms
FamSigDest ==
  \E d \in Dests, sw \in BOOLEAN, q \in Queries, mk \in {<<"rsa-sha256", "rsa2048">>, <<"ecdsa-sha384", "ec384">>},
     k \in Kinds \ {"artifact"}, b \in Bindings, rs \in {<<>>, <<"amp", "eq">>} :
      /\ ~(d = "first" /\ ~sw)
      /\ cfg = [BaseCfg EXCEPT !.query = q, !.method = mk[1], !.key = mk[2]]
      /\ in = InAt("sig", k, b, rs, NidFor(k), d, sw)
\* C13: strings that are not among the eight URIs although they resemble one, x key x kind x binding
FamSigNear(relays, queries) ==
  \/ \E f \in NearForms, m \in Methods, ky \in Keys, k \in Kinds \ {"artifact"}, b \in Bindings, q \in queries, rs \in relays :
      /\ cfg = [BaseCfg EXCEPT !.query = q, !.method = m, !.mform = f, !.key = ky]
      /\ in = In("sig", k, b, rs, NidFor(k))
  \/ \E f \in NearForms, m \in Methods, ky \in Keys :
      /\ cfg = [BaseCfg EXCEPT !.method = m, !.mform = f, !.key = ky]
      /\ in = In("sig", "artifact", "soap", <<>>, <<>>)
\* C13: the environment of the signing decision - what the IdP's metadata says it wants x the SP's certificate
\* chain - through every kind and binding: fitting method/key pairs (MustAccept), an unknown method and both
\* family mismatches (MustReject: refused whatever the IdP wants), signing off.  (absent, none) is FamSig's case.
EnvAll    == (IdpWants \X Chains) \ {<<"absent", "none">>}
\* covering subset: every value of each dimension alone, and every value paired with a non-default of the other
EnvQuick  == { <<"true", "none">>, <<"false", "none">>, <<"absent", "one">>, <<"absent", "two">>, <<"false", "two">>, <<"true", "one">> }
\* each of the eight methods with a key of its family (every key once), an unknown method, both mismatches, off
EnvPairsQ == { <<"rsa-sha1", "rsa1024">>, <<"rsa-sha256", "rsa2048">>, <<"rsa-sha384", "rsa3072">>, <<"rsa-sha512", "rsa4096">>,
               <<"ecdsa-sha1", "ec256">>, <<"ecdsa-sha256", "ec256">>, <<"ecdsa-sha384", "ec384">>, <<"ecdsa-sha512", "ec521">>,
               <<"unknown", "rsa2048">>, <<"ecdsa-sha256", "rsa2048">>, <<"rsa-sha256", "ec256">>, <<"", "rsa2048">> }
EnvPairsT == MethodCfgs \X Keys
FamSigEnv(envs, pairs, relays, queries) ==
  \/ \E e \in envs, mk \in pairs, k \in Kinds \ {"artifact"}, b \in Bindings, q \in queries, rs \in relays :
      /\ cfg = [BaseCfg EXCEPT !.query = q, !.method = mk[1], !.key = mk[2], !.idpwants = e[1], !.chain = e[2]]
      /\ in = In("sig", k, b, rs, NidFor(k))
  \/ \E e \in envs, mk \in pairs :
      /\ cfg = [BaseCfg EXCEPT !.method = mk[1], !.key = mk[2], !.idpwants = e[1], !.chain = e[2]]
      /\ in = In("sig", "artifact", "soap", <<>>, <<>>)
\* C13: WHO emits - samlsp.Middleware.HandleStartAuthFlow for every consistent (offers, Middleware.Binding) pair,
\* and the application itself against an IdP offering one binding only - x method/key pairs (fitting, unknown,
\* mismatched, signing off).  (direct, both) is FamSig's case.
FamSigPath(pairs, relays, queries) ==
  \/ \E e \in MwEnvs, mk \in pairs, q \in queries, rs \in relays :
      /\ cfg = [BaseCfg EXCEPT !.query = q, !.method = mk[1], !.key = mk[2], !.offers = e[1], !.mwbinding = e[2]]
      /\ in = InVia("sig", ChosenOf(e[1], e[2]), rs, "middleware", "post")
  \/ \E o \in {"redirect", "post"}, mk \in pairs, q \in queries, rs \in relays :
      /\ cfg = [BaseCfg EXCEPT !.query = q, !.method = mk[1], !.key = mk[2], !.offers = o]
      /\ in = InVia("sig", o, rs, "direct", "post")
\* C12: the RESULT binding x both request bindings x both paths (the middleware over every consistent setting);
\* (direct, post) is FamRelay's case
FamResult ==
  \/ \E r \in Results, e \in MwEnvs, q \in Queries, m \in {"", "rsa-sha256"}, rs \in DestRelays :
      /\ cfg = [BaseCfg EXCEPT !.query = q, !.method = m, !.offers = e[1], !.mwbinding = e[2]]
      /\ in = InVia("result", ChosenOf(e[1], e[2]), rs, "middleware", r)
  \/ \E b \in Bindings, q \in Queries, m \in {"", "rsa-sha256"}, rs \in DestRelays :
      /\ cfg = [BaseCfg EXCEPT !.query = q, !.method = m]
      /\ in = InVia("result", b, rs, "direct", "artifact")
\* small families for the refutation runs (Seeded # {})
FamDevPath   == FamSigPath({<<"rsa-sha256", "rsa2048">>, <<"ecdsa-sha256", "rsa2048">>}, {<<>>}, {"none"})
\* ID freshness: arbitrary sequences of creations
FamSeq == cfg = BaseCfg /\ in = In("seq", "seq", "none", <<>>, <<>>)

Cases == CASE Family = "C12q" -> FamRelay(2) \/ FamNameID(2) \/ FamConfig \/ FamDest \/ FamResult \/ FamSeq
           [] Family = "C12t" -> FamRelay(3) \/ FamNameID(3) \/ FamConfig \/ FamDest \/ FamResult \/ FamSeq
           [] Family = "C12dev" -> FamResult
           [] Family = "C13dev" -> FamDevPath
           [] Family = "C13q" -> FamSig(SigRelaysQ, Queries) \/ FamSigDest \/ FamSigNear({<<"plain">>}, {"none", "ab"})
                                   \/ FamSigEnv(EnvQuick, EnvPairsQ, {<<>>, <<"amp", "eq">>}, {"none", "ab"})
                                   \/ FamSigPath(EnvPairsQ, {<<>>, <<"amp", "eq">>}, {"none", "ab"})
           [] Family = "C13t" -> FamSig(SigRelaysT, Queries) \/ FamSigDest \/ FamSigNear({<<>>, <<"plain">>, <<"amp", "eq">>}, Queries)
                                   \/ FamSigEnv(EnvAll, EnvPairsT, {<<>>, <<"amp", "eq">>}, {"none", "ab"})
                                   \/ FamSigPath(EnvPairsT, {<<>>, <<"amp", "eq">>}, {"none", "ab"})

\* the IdP's endpoints ---------------------------------------------------------------------------------
\* an endpoint is [svc, at, query]: which service, which URL (scheme, host, path), which query string it carries.
\* The URL the request is made for carries cfg.query; every OTHER location carries the query "other" (m=1),
\* so that a message written to the wrong location is told apart by its path AND by its parameters.
Svc == IF in.kind = "authn" THEN "sso" ELSE IF in.kind = "artifact" THEN "art" ELSE "slo"
EP(at, q) == [svc |-> Svc, at |-> at, query |-> q]
\* the idpURL handed to Make*
Given == IF in.kind = "artifact" THEN [svc |-> "none", at |-> "none", query |-> "none"] ELSE EP(in.dest, cfg.query)
\* sp.IDPMetadata when the message is created: two locations for the binding in use
MdAtCreate == << IF in.dest = "first"  THEN EP("first", cfg.query)  ELSE EP("first", "other"),
                 IF in.dest = "second" THEN EP("second", cfg.query) ELSE EP("second", "other") >>
\* the metadata an application installs later (the IdP moved its endpoints)
MdReplaced == << EP("moved", "other"), EP("moved2", "other") >>
\* GetSSOBindingLocation / GetSLOBindingLocation :346 :372 - the first location with the binding
FirstLocation(m) == m[1]
NoTarget == [v \in Variants |-> [svc |-> "none", at |-> "none", query |-> "none"]]

NoWire == [v \in Variants |-> <<>>]
Init == /\ Cases
        /\ md = MdAtCreate /\ target = NoTarget
        /\ pc = IF in.kind = "seq" THEN "seq" ELSE "create"
        /\ rnd = 0 /\ ids = <<>> /\ msg = [kind |-> "none"]
        /\ outcome = "none" /\ sigform = "none"
        /\ wire = NoWire /\ signed = NoWire /\ recv = NoWire /\ params = NoWire

----------------------------------------------------------------------------
(* the signing-context table, service_provider.go:559-605 (GetSigningContext) *)

MethodFamily(m) == IF m \in RsaMethods THEN "rsa" ELSE IF m \in EcMethods THEN "ecdsa" ELSE "unknown"
KeyFamily(k)    == IF k \in RsaKeys THEN "rsa" ELSE "ecdsa"
\* the switch compares the configured STRING with the eight URIs: only the exact string of a URI selects its case
SwitchCase(m, f) == IF f = "exact" THEN MethodFamily(m) ELSE "unknown"
SigningContext(m, f, k) == IF SwitchCase(m, f) = "unknown" THEN "error"          \* default: invalid signing method
                           ELSE IF SwitchCase(m, f) # KeyFamily(k) THEN "error"  \* requires a key of type ...
                           ELSE "ok"
Signing == cfg.method # ""
\* what the IdP's metadata offers: GetSSOBindingLocation(b) # "" (:346)
Offered(b) == cfg.offers \in {b, "both"}
\* the binding HandleStartAuthFlow chooses (samlsp/middleware.go:137-151), and renders with (:172 :181)
MwChosen == ChosenOf(cfg.offers, cfg.mwbinding)
\* the binding handed to MakeAuthenticationRequest: by the application the one it renders with; by the
\* middleware the one it chose (:155)
Handed == IF in.path = "middleware"
            THEN (IF "HandsConfiguredBinding" \in Seeded
                    THEN (IF cfg.mwbinding = "default" THEN "unset" ELSE cfg.mwbinding)    \* m.Binding
                    ELSE MwChosen)
            ELSE in.binding
\* where the code signs: enveloped at creation for every kind but the AuthnRequest, which is signed there only
\* when the binding handed to MakeAuthenticationRequest is HTTP-POST (:548 "We don't need to sign the XML
\* document if the IDP uses HTTP-Redirect binding" - if len(sp.SignatureMethod) > 0 && binding == HTTPPostBinding);
\* rendered with Redirect() it gets the detached query-string signature instead
SignsEnveloped == Signing /\ (in.kind = "authn" => Handed = "post")
SignsDetached  == Signing /\ in.kind = "authn" /\ in.binding = "redirect"

\* Neither decision reads what the IdP's metadata says about signed requests (cfg.idpwants): Redirect() asks
\* len(sp.SignatureMethod) > 0 only (:324), and so do the creation functions (:520 :557 :1403 :1517).

\* sp.Metadata() :190-226 - the KeyDescriptor use="signing" exists iff a signature method is configured; its
\* X509Certificate carries the DER of sp.Certificate followed by the DER of every intermediate, in order
\* (:193-196 certBytes := sp.Certificate.Raw; for each intermediate: append).  Certificates are named by
\* their position in the chain: "leaf" = sp.Certificate (the certificate of sp.Key), "ca1" its issuer, "ca2"
\* the issuer of "ca1".
Intermediates == CASE cfg.chain = "none" -> <<>>
                   [] cfg.chain = "one"  -> <<"ca1">>
                   [] cfg.chain = "two"  -> <<"ca1", "ca2">>
Published == IF Signing THEN <<"leaf">> \o Intermediates ELSE <<>>
\* every signing context signs with sp.Key and names sp.Certificate in ds:KeyInfo - and only it (:567-575: the
\* intermediates are NOT added to the key store's chain)
SignedBy     == "leaf"
KeyInfoCerts == <<"leaf">>

----------------------------------------------------------------------------
(* message creation and the random stream, :501-556 :1366-1390 :1480-1504; util.go:25-33 *)

Issue(k, from, n) == [kind |-> k, from |-> from, to |-> from + n]     \* the ID is the hex of stream[from..to)
Draw(k, from, n) == /\ from >= rnd
                    /\ rnd' = from + n
                    /\ ids' = Append(ids, Issue(k, from, n))

Policy == CASE cfg.nidfmt = "unset" -> "transient"      \* :1612 back-compat default
            [] cfg.nidfmt = "unspecified" -> "absent"   \* empty Format = unspecified, attribute omitted
            [] OTHER -> cfg.nidfmt
\* the one-step functions (:283 :655 :1415 :1455 :1529 :1569) pass the metadata's first location for the binding
\* (for the response over HTTP-POST, from the application)
OneStepPossible == in.dest = "first" /\ ~in.swap /\ in.path = "direct" /\ in.result = "post"

Create ==
  /\ pc = "create"
  /\ Draw(in.kind, rnd, IdBytes)
  /\ msg' = [kind |-> in.kind, id |-> Issue(in.kind, rnd, IdBytes), issuer |-> "sp-entity",
             dest |-> Given,                                  \* Destination: idpURL  :536 :1390 :1505
             acs |-> IF in.kind = "authn" THEN "sp-acs" ELSE "none",
             pbinding |-> IF in.kind = "authn" THEN in.result ELSE "none",   \* ProtocolBinding: resultBinding :538
             policy |-> IF in.kind = "authn" THEN Policy ELSE "none",
             nidformat |-> IF in.kind = "logoutreq" THEN Policy ELSE "none",
             force |-> IF in.kind = "authn" THEN cfg.force ELSE "nil",
             rac |-> in.kind = "authn" /\ cfg.rac,
             irt |-> IF in.kind = "logoutresp" THEN "given" ELSE "none",
             nameid |-> in.nameid]
  /\ pc' = "select"
  /\ UNCHANGED <<cfg, in, md, target, outcome, sigform, wire, signed, recv, params>>

\* Sign{AuthnRequest,LogoutRequest,LogoutResponse,ArtifactResolve}: GetSigningContext then SignEnveloped;
\* an error aborts Make* (nil message)
SelectSigning ==
  /\ pc = "select"
  /\ IF SignsEnveloped /\ SigningContext(cfg.method, cfg.mform, cfg.key) = "error"
       THEN pc' = "done" /\ outcome' = "error" /\ sigform' = "none"
       ELSE pc' = (IF in.swap THEN "replace" ELSE "serialize") /\ outcome' = outcome
            /\ sigform' = IF SignsEnveloped THEN "enveloped" ELSE "none"
  /\ UNCHANGED <<cfg, in, md, target, rnd, ids, msg, wire, signed, recv, params>>

\* between the two steps of the API the application assigns a new sp.IDPMetadata (metadata refresh);
\* the message value it already holds is not touched
ReplaceMetadata ==
  /\ pc = "replace"
  /\ md' = MdReplaced
  /\ pc' = "serialize"
  /\ UNCHANGED <<cfg, in, target, rnd, ids, msg, outcome, sigform, wire, signed, recv, params>>

----------------------------------------------------------------------------
(* escaping functions *)

\* url.QueryEscape: unreserved characters stay, space becomes '+', everything else %XX
QEsc(c)     == IF IsPlain(c) THEN Tok("raw", c) ELSE Tok("enc", c)
QEscape(s)  == [i \in DOMAIN s |-> QEsc(s[i])]
RawText(s)  == [i \in DOMAIN s |-> Tok("raw", s[i])]
\* html/template attribute value: & " ' < + (and others outside the alphabet) become entities
HEsc(c)     == IF c \in {"amp", "dquote", "squote", "lt", "plus"} THEN Tok("enc", c) ELSE Tok("raw", c)
HEscape(s)  == [i \in DOMAIN s |-> HEsc(s[i])]
\* etree character data: & < " ' become entities
XEsc(c)     == IF c \in {"amp", "lt", "dquote", "squote"} THEN Tok("enc", c) ELSE Tok("raw", c)
XEscape(s)  == [i \in DOMAIN s |-> XEsc(s[i])]

SAMLName == IF in.kind = "logoutresp" THEN "SAMLResponse" ELSE "SAMLRequest"
OwnNames == {"SAMLRequest", "SAMLResponse", "RelayState", "SigAlg", "Signature"}

\* the endpoint's own query, as written in the IdP metadata
RawExisting(q) == CASE q = "none" -> <<>>
                    [] q = "ab"   -> <<Lit("a"), EQ, Lit("b")>>
                    [] q = "abc"  -> <<Lit("a"), EQ, Lit("b"), AMP, Lit("c")>>
                    [] q = "other" -> <<Lit("m"), EQ, Lit("1")>>
\* and what a receiver must still find in the emitted URL (decoded pairs)
ExistingPairs(q) == CASE q = "none" -> <<>>
                      [] q = "other" -> << [n |-> <<Lit("m")>>, v |-> <<Lit("1")>>] >>
                      [] q = "ab"   -> << [n |-> <<Lit("a")>>, v |-> <<Lit("b")>>] >>
                      [] q = "abc"  -> << [n |-> <<Lit("a")>>, v |-> <<Lit("b")>>], [n |-> <<Lit("c")>>, v |-> <<>>] >>

\* Serialize: Element() -> etree -> (deflate) -> base64; the payload is opaque from here on
Serialize ==
  /\ pc = "serialize"
  /\ pc' = IF in.binding = "soap" THEN "done" ELSE "assemble"
  /\ outcome' = IF in.binding = "soap" THEN "ok" ELSE outcome
  /\ UNCHANGED <<cfg, in, md, target, rnd, ids, msg, sigform, wire, signed, recv, params>>

\* AuthnRequest.Redirect :303-321 - query assembled by hand, "order matters for signing"
HandQuery(D, tq) ==
  LET pre == RawExisting(tq)
      sam == <<Lit("SAMLRequest"), EQ, Blob("req")>>
      q1  == IF pre = <<>> THEN sam ELSE pre \o <<AMP>> \o sam
      rs  == IF in.relay = <<>> THEN <<>>
             ELSE <<AMP, Lit("RelayState"), EQ>> \o
                  (IF "RelayStateNotEscaped" \in D THEN RawText(in.relay) ELSE QEscape(in.relay))
  IN q1 \o rs

\* LogoutRequest.Redirect :1421-1427 / LogoutResponse.Redirect :1535-1541 - url.Values: Set + Encode
\* (keys sorted bytewise: RelayState < SAMLRequest < SAMLResponse < a < c; "c" re-encodes as "c=")
ValuesQuery(tq) ==
  LET rs  == IF in.relay = <<>> THEN <<>> ELSE <<Lit("RelayState"), EQ>> \o QEscape(in.relay) \o <<AMP>>
      sam == <<Lit(SAMLName), EQ, Blob("req")>>
      ex  == CASE tq = "none" -> <<>>
               [] tq = "ab"   -> <<AMP, Lit("a"), EQ, Lit("b")>>
               [] tq = "abc"  -> <<AMP, Lit("a"), EQ, Lit("b"), AMP, Lit("c"), EQ>>
               [] tq = "other" -> <<AMP, Lit("m"), EQ, Lit("1")>>
  IN rs \o sam \o ex

\* Post() :656-689 :1444-1477 :1558-1591 - html/template form with two hidden inputs (RelayState always present)
FormFields == <<Lit(SAMLName), EQ, Blob("req"), AMP, Lit("RelayState"), EQ>> \o HEscape(in.relay)

\* every encoder writes to the message's OWN Destination - url.Parse(r.Destination) :304 :1438 :1552, form
\* action {{.URL}} = r.Destination :684 :1484 :1598 - whatever sp.IDPMetadata (md) says by now
WriteTo(D) == msg.dest

Assemble ==
  /\ pc = "assemble"
  /\ LET tg == [v \in Variants |-> WriteTo(Dev(v))] IN
       /\ target' = tg
       /\ wire' = [v \in Variants |->
                     IF in.binding = "post" THEN FormFields
                     ELSE IF in.kind = "authn" THEN HandQuery(Dev(v), tg[v].query)
                     ELSE ValuesQuery(tg[v].query)]
  /\ pc' = IF SignsDetached THEN "signquery" ELSE "transmit"
  /\ UNCHANGED <<cfg, in, md, rnd, ids, msg, outcome, sigform, signed, recv, params>>

\* the part of a query that belongs to the SAML binding: from the SAMLRequest name to its end
FirstIdx(w, P(_)) == IF \E i \in DOMAIN w : P(w[i])
                       THEN CHOOSE i \in DOMAIN w : P(w[i]) /\ \A j \in 1..(i-1) : ~P(w[j])
                       ELSE 0
IsSAMLName(t) == t = Lit("SAMLRequest") \/ t = Lit("SAMLResponse")
OwnPart(w) == LET k == FirstIdx(w, IsSAMLName) IN IF k = 0 THEN <<>> ELSE SubSeq(w, k, Len(w))

\* :322-332  SigAlg appended, GetSigningContext, SignString(query), Signature appended.
\* The SigAlg value is the configured STRING, escaped (:323 url.QueryEscape(sp.SignatureMethod)); the algorithm
\* that signs is the one the signing context selected from it.
AlgTok == Tok("alg", cfg.mform)
SignQuery ==
  /\ pc = "signquery"
  /\ IF SigningContext(cfg.method, cfg.mform, cfg.key) = "error"
       THEN /\ pc' = "done" /\ outcome' = "error" /\ wire' = NoWire
            /\ UNCHANGED <<signed, sigform>>
       ELSE LET withAlg == [v \in Variants |-> wire[v] \o <<AMP, Lit("SigAlg"), EQ, AlgTok>>]
            IN /\ signed' = [v \in Variants |->
                               IF "SignsExistingQuery" \in Dev(v) THEN withAlg[v] ELSE OwnPart(withAlg[v])]
               /\ wire' = [v \in Variants |-> withAlg[v] \o <<AMP, Lit("Signature"), EQ, Blob("sig")>>]
               /\ sigform' = "detached" /\ pc' = "transmit" /\ outcome' = outcome
  /\ UNCHANGED <<cfg, in, md, target, rnd, ids, msg, recv, params>>

----------------------------------------------------------------------------
(* the receiver: a standards-conforming user agent and query / form parser *)

IsHash(t) == t = Tok("raw", "hash")
IsAmp(t)  == t = AMP \/ t = Tok("raw", "amp")
IsEq(t)   == t = EQ \/ t = Tok("raw", "eq")
IsQuote(t) == t = Tok("raw", "dquote")

\* a '#' written raw starts the fragment, which never reaches the server
CutAt(w, P(_)) == LET k == FirstIdx(w, P) IN IF k = 0 THEN w ELSE SubSeq(w, 1, k - 1)

Transmit ==
  /\ pc = "transmit"
  /\ recv' = [v \in Variants |-> IF in.binding = "redirect" THEN CutAt(wire[v], IsHash) ELSE wire[v]]
  /\ pc' = "parse"
  /\ UNCHANGED <<cfg, in, md, target, rnd, ids, msg, outcome, sigform, wire, signed, params>>

RECURSIVE SplitAmp(_)
SplitAmp(w) == LET k == FirstIdx(w, IsAmp)
               IN IF k = 0 THEN <<w>> ELSE <<SubSeq(w, 1, k - 1)>> \o SplitAmp(SubSeq(w, k + 1, Len(w)))

\* percent-decoding with '+' as space; a raw '%' is either a broken escape or swallows the two
\* characters after it - in both cases not the character that was meant
QDec(t) == CASE t.t = "enc" -> Tok("ch", t.v)
             [] t.t = "raw" -> IF t.v = "plus" THEN Tok("ch", "space")
                               ELSE IF t.v = "pct" THEN Tok("bad", "pct")
                               ELSE Tok("ch", t.v)
             [] OTHER -> t
\* entity decoding of an attribute value (ends at the first raw double quote)
HDec(t) == IF t.t \in {"enc", "raw"} THEN Tok("ch", t.v) ELSE t

Pair(piece, D(_)) == LET k == FirstIdx(piece, IsEq)
                         n == IF k = 0 THEN piece ELSE SubSeq(piece, 1, k - 1)
                         v == IF k = 0 THEN <<>> ELSE SubSeq(piece, k + 1, Len(piece))
                     IN [n |-> [i \in DOMAIN n |-> D(n[i])], v |-> [i \in DOMAIN v |-> D(v[i])]]

NonEmpty(ps) == SelectSeq(ps, LAMBDA p : p # <<>>)
QueryPairs(w) == LET ps == NonEmpty(SplitAmp(w)) IN [i \in DOMAIN ps |-> Pair(ps[i], QDec)]
\* the form is tokenised by the HTML parser, not by '&': the two inputs are separated by the encoder's AMP only
FormPairs(w)  == LET k   == FirstIdx(w, LAMBDA t : t = AMP)
                     one == SubSeq(w, 1, k - 1)
                     two == CutAt(SubSeq(w, k + 1, Len(w)), IsQuote)
                     f(p) == [n |-> <<p[1]>>, v |-> [i \in 1..(Len(p) - 2) |-> HDec(p[i + 2])]]
                 IN <<f(one), f(two)>>

Parse ==
  /\ pc = "parse"
  /\ params' = [v \in Variants |-> IF in.binding = "post" THEN FormPairs(recv[v]) ELSE QueryPairs(recv[v])]
  /\ pc' = "done" /\ outcome' = "ok"
  /\ UNCHANGED <<cfg, in, md, target, rnd, ids, msg, sigform, wire, signed, recv>>

\* net/url's parser (used by this library's IdP) additionally drops a pair that contains a raw ';'
\* or a broken escape - named difference GoQueryParser; it only matters for unescaped relay states
HasRawSemi(p) == \E i \in DOMAIN p : p[i] = Tok("raw", "semicolon") \/ p[i] = Tok("raw", "pct")
GoQueryPairs(w) == LET ps == SelectSeq(NonEmpty(SplitAmp(w)), LAMBDA p : ~HasRawSemi(p))
                   IN [i \in DOMAIN ps |-> Pair(ps[i], QDec)]

----------------------------------------------------------------------------
(* ID freshness: sequences of creations *)

SeqCreate(k, from, n) ==
  /\ pc = "seq"
  /\ Len(ids) < MaxSeq
  /\ Draw(k, from, n)
  /\ UNCHANGED <<cfg, in, md, target, pc, msg, outcome, sigform, wire, signed, recv, params>>

Next == \/ Create \/ SelectSigning \/ ReplaceMetadata \/ Serialize \/ Assemble \/ SignQuery \/ Transmit \/ Parse
        \/ \E k \in Kinds : SeqCreate(k, rnd, IdBytes)
Spec == Init /\ [][Next]_vars

----------------------------------------------------------------------------
(* Properties - from the statements of C12 and C13 only *)

Done == pc = "done"
Wired == Done /\ outcome = "ok" /\ in.binding \in Bindings

Named(ps, name) == { i \in DOMAIN ps : ps[i].n = <<Lit(name)>> }
Count(ps, name) == Cardinality(Named(ps, name))
ValueOf(ps, name) == ps[CHOOSE i \in Named(ps, name) : TRUE].v
Expect(s) == [i \in DOMAIN s |-> Tok("ch", s[i])]
Foreign(ps) == SelectSeq(ps, LAMBDA p : \A nm \in OwnNames : p.n # <<Lit(nm)>>)

\* the octets between "SAMLRequest=" and "&Signature=" as they appear in the emitted query
OwnSigned(w) == LET o == OwnPart(w)
                    k == FirstIdx(o, LAMBDA t : t = Lit("Signature"))
                IN IF k = 0 THEN <<>> ELSE SubSeq(o, 1, k - 2)      \* drop "&" and "Signature"
SignedExact(w, sg) == sigform # "detached" \/ (sg # <<>> /\ sg = OwnSigned(w))

\* observable facts about one decoded emission (the harness computes the same record from the real output)
Flags(ps, w, sg) ==
  [ nSAML      |-> Count(ps, "SAMLRequest") + Count(ps, "SAMLResponse"),
    samlNamed  |-> Count(ps, SAMLName) = 1,
    payload    |-> Count(ps, SAMLName) = 1 /\ ValueOf(ps, SAMLName) = <<Blob("req")>>,
    nRelay     |-> Count(ps, "RelayState"),
    relayRT    |-> IF Count(ps, "RelayState") = 1 THEN ValueOf(ps, "RelayState") = Expect(in.relay)
                   ELSE Count(ps, "RelayState") = 0 /\ in.relay = <<>>,
    existing   |-> in.binding = "post" \/ Foreign(ps) = ExistingPairs(cfg.query),
    \* SigAlg names one of the eight URIs (the exact string of one)
    sigParams  |-> IF sigform = "detached"
                     THEN Count(ps, "SigAlg") = 1 /\ Count(ps, "Signature") = 1
                          /\ ValueOf(ps, "SigAlg") = <<Tok("alg", "exact")>> /\ ValueOf(ps, "Signature") = <<Blob("sig")>>
                     ELSE Count(ps, "SigAlg") = 0 /\ Count(ps, "Signature") = 0,
    signedExact |-> SignedExact(w, sg) ]

\* where the user agent is sent (scheme, host, path of the URL / form action) is the idpURL given to Make*
Delivered(v) == [svc |-> target[v].svc, at |-> target[v].at] = [svc |-> Given.svc, at |-> Given.at]
F(v)   == [Flags(params[v], wire[v], signed[v]) EXCEPT !.existing = @ /\ (in.binding = "redirect" \/ target[v].query = cfg.query)]
            @@ [delivered |-> Delivered(v)]
\* the same emission as this library's IdP reads it (AuthnRequest over redirect only)
FGo(v) == LET ps == GoQueryPairs(recv[v]) IN
          [ nSAML |-> Count(ps, "SAMLRequest"),
            payload |-> Count(ps, "SAMLRequest") = 1 /\ ValueOf(ps, "SAMLRequest") = <<Blob("req")>>,
            relayRT |-> IF Count(ps, "RelayState") >= 1 THEN ValueOf(ps, "RelayState") = Expect(in.relay)
                        ELSE in.relay = <<>> ]
IdpReads == in.kind = "authn" /\ in.binding = "redirect"
\* the IdP that serves the URL the user agent is sent to compares the message's Destination with its own
\* SSO URL, query string included (identity_provider.go:433); AuthnRequests of both bindings
IdpDestOK(v) == msg.dest = target[v]
\* sp.Metadata() :262-271 registers the SP's ACS URL twice: index 1 HTTP-POST, index 2 HTTP-Artifact
SpAcsEndpoints == << [binding |-> "post", at |-> "sp-acs", index |-> 1], [binding |-> "artifact", at |-> "sp-acs", index |-> 2] >>
\* identity_provider.go:487-505 getACSEndpoint, AssertionConsumerServiceURL branch: the first registered endpoint
\* whose Location is the request's URL ("none": cannot find assertion consumer service)
IdpAcs == LET hits == { i \in DOMAIN SpAcsEndpoints : SpAcsEndpoints[i].at = msg.acs } IN
          IF hits = {} THEN "none"
          ELSE LET i == CHOOSE j \in hits : \A k \in hits : j <= k IN
               IF "AcsLookupStopsAtFirst" \in Seeded /\ SpAcsEndpoints[i].binding # msg.pbinding
                 THEN "none" ELSE SpAcsEndpoints[i].at

\* C12 ------------------------------------------------------------------------
ExactlyOneSAMLParam    == Wired => F("req").nSAML = 1 /\ F("req").samlNamed /\ F("req").payload
AtMostOneRelayState    == Wired => F("req").nRelay <= 1
RelayStateRoundTrips   == Wired => F("req").relayRT
ExistingQueryPreserved == Wired => F("req").existing
IdpRecovers            == Wired /\ IdpReads => FGo("req").nSAML = 1 /\ FGo("req").payload /\ FGo("req").relayRT
\* the wire form and the message agree on where the message goes, and that is where the caller sent it:
\* for every idpURL (in the metadata or not, with or without a query) and whatever sp.IDPMetadata is by now
DeliveredToDestination == Wired => F("req").delivered /\ target["req"] = Given /\ msg.dest = Given
IdpAcceptsDestination  == Wired /\ in.kind = "authn" => IdpDestOK("req")
\* "this library's IdP parses and validates every such authentication request" - for either binding the response
\* is asked over: the IdP finds the SP's assertion consumer service, and the SP registered that binding there
IdpFindsAcs            == Wired /\ in.kind = "authn" =>
                            /\ IdpAcs = "sp-acs"
                            /\ \E i \in DOMAIN SpAcsEndpoints : SpAcsEndpoints[i].at = msg.acs /\ SpAcsEndpoints[i].binding = msg.pbinding
\* the decoded message carries the configured values (symbolic: Serialize is the identity on msg)
MessageIntact == Done /\ outcome = "ok" =>
                   /\ msg.kind = in.kind /\ msg.issuer = "sp-entity" /\ msg.id = ids[Len(ids)]
                   /\ (in.kind # "artifact" => msg.dest = Given)
                   /\ (in.kind = "authn" => msg.acs = "sp-acs" /\ msg.policy = Policy /\ msg.force = cfg.force /\ msg.rac = cfg.rac
                                            /\ msg.pbinding = in.result)
                   /\ (in.kind = "logoutreq" => msg.nameid = in.nameid /\ msg.nidformat = Policy)
                   /\ (in.kind = "logoutresp" => msg.irt = "given")
\* each message ID is fresh and derived from at least 128 bits of the stream (action property)
IDsFresh == [][ ids' # ids =>
                  /\ Len(ids') = Len(ids) + 1
                  /\ LET new == ids'[Len(ids')] IN
                       /\ new.to - new.from >= MinIdBytes
                       /\ new.from >= rnd /\ new.to <= rnd'                      \* drawn from the stream, now
                       /\ \A j \in DOMAIN ids : ids[j].to <= new.from           \* no byte is used twice
                       /\ \A j \in DOMAIN ids : [from |-> ids[j].from, to |-> ids[j].to] # [from |-> new.from, to |-> new.to] ]_vars

\* C13 ------------------------------------------------------------------------
\* "unknown" = the configured string is not one of the eight URIs - whatever it resembles
AmongEight == cfg.method \in Methods /\ cfg.mform = "exact"
MustRefuse == Signing /\ (~AmongEight \/ MethodFamily(cfg.method) # KeyFamily(cfg.key))
MustSign   == Signing /\ ~MustRefuse
\* a string that a tolerant reader would take for one of the eight: refusing it is REQUIRED; the harm the
\* statement names is "an unsigned or unverifiable message", so an implementation that normalises the string
\* consistently (the message verifies and names one of the eight URIs) is reported as drift, anything else
\* that is not an error as a violation
NearMiss   == Signing /\ cfg.method \in Methods /\ cfg.mform # "exact"
RequiredForm == IF in.kind = "authn" /\ in.binding = "redirect" THEN "detached" ELSE "enveloped"

RefusesMismatch  == Done /\ MustRefuse => outcome = "error" /\ wire["req"] = <<>> /\ sigform = "none"
CarriesSignature == Done /\ MustSign => outcome = "ok" /\ sigform = RequiredForm
UnsignedWhenOff  == Done /\ ~Signing => outcome = "ok" /\ sigform = "none"
SignedOctetsExact == Wired => F("req").signedExact /\ F("req").sigParams
\* "verifies under the certificate in the SP's published metadata": the certificate a relying party takes
\* from the signing KeyDescriptor is the FIRST one it lists; with a certificate chain configured the others are
\* CA certificates, under which no message of the SP verifies
VerifierCert == IF Published = <<>> THEN "none" ELSE Published[1]
VerifiesUnderPublished == Done /\ MustSign => outcome = "ok" /\ VerifierCert = SignedBy /\ KeyInfoCerts[1] = VerifierCert
\* "when request signing is configured": for every wish of the IdP - absent, true, false - the message is signed
\* or refused, never sent without a signature (the case split of CarriesSignature / RefusesMismatch leaves no
\* room for cfg.idpwants; stated on its own so that the cfg shows which clause covers the dimension)
SignedWhateverIdpWants == Done /\ Signing => (outcome = "ok" /\ sigform = RequiredForm) \/ (outcome = "error" /\ sigform = "none")
\* on every path: what is EMITTED with a method configured is signed in the form its binding requires, or the
\* emission is refused - because method and key do not fit, and only then.  RequiredForm reads the binding the
\* message is emitted with; neither clause reads who chose it (in.path), why (cfg.mwbinding, cfg.offers), nor
\* what Make* was told (Handed).
SignedOnEveryPath == Done /\ Signing =>
                       IF MustRefuse THEN outcome = "error" /\ sigform = "none" /\ wire["req"] = <<>>
                       ELSE outcome = "ok" /\ sigform = RequiredForm
\* model consistency: the middleware renders with the binding it chose, which the IdP offers, at the metadata's
\* first location for it; it emits AuthnRequests only
MiddlewareEmitsChosen == in.path = "middleware" =>
                           in.kind = "authn" /\ in.binding = MwChosen /\ Offered(in.binding) /\ in.dest = "first" /\ ~in.swap
SigningTableTotal == \A m \in MethodCfgs \ {""}, f \in MethodForms, k \in Keys : SigningContext(m, f, k) \in {"ok", "error"}
\* model consistency: the one-step functions are the two-step API called with the metadata's first location
OneStepIsFirstLocation == OneStepPossible /\ in.kind \in Kinds \ {"artifact"} => Given = FirstLocation(MdAtCreate) /\ md = MdAtCreate

\* model consistency: the pinned variant differs from the required one only where a named deviation applies
NeedsEscape == \E i \in DOMAIN in.relay : ~IsPlain(in.relay[i])
DeviationApplies == in.kind = "authn" /\ in.binding = "redirect"
                    /\ (NeedsEscape \/ (sigform = "detached" /\ cfg.query # "none"))
PinnedDiffersOnlyWhereNamed == Wired /\ (F("pin") # F("req") \/ wire["pin"] # wire["req"] \/ signed["pin"] # signed["req"])
                                 => DeviationApplies

Class == IF in.fam = "sig"
           THEN (IF MustRefuse THEN "MustReject" ELSE IF MustSign THEN "MustAccept" ELSE "DontCare")
           ELSE "MustAccept"

----------------------------------------------------------------------------
(* vector emission *)
Pred(v) == IF outcome = "ok" /\ in.binding \in Bindings
             THEN [outcome |-> outcome, sigform |-> sigform, flags |-> F(v),
                   idp |-> (IF IdpReads THEN FGo(v) ELSE [nSAML |-> 1, payload |-> TRUE, relayRT |-> TRUE])
                           @@ [destOK |-> IdpDestOK(v), acsOK |-> in.kind # "authn" \/ IdpAcs = "sp-acs"]]
             ELSE [outcome |-> outcome, sigform |-> sigform]
Emit == Done => PrintT(<<"VEC", ToJson([prop |-> Family, cfg |-> cfg, in |-> in, class |-> Class,
                                         required |-> [form |-> IF Signing THEN RequiredForm ELSE "none",
                                                       policy |-> Policy, nearmiss |-> NearMiss,
                                                       onestep |-> OneStepPossible,
                                                     \* the binding the message is emitted with (the middleware's choice)
                                                     chosen |-> IF in.path = "middleware" THEN MwChosen ELSE in.binding,
                                                       \* the published certificate the signature must verify under
                                                       verifier |-> IF MustSign THEN SignedBy ELSE "none"],
                                         \* the signing KeyDescriptor of sp.Metadata(), certificates in order
                                         published |-> Published,
                                         pred |-> [req |-> Pred("req"), pin |-> Pred("pin")]])>>)
=============================================================================
