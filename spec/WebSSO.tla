-------------------------------- MODULE WebSSO --------------------------------
(***************************************************************************)
(* C07 - the IdP -> SP round trip preserves the authenticated identity.    *)
(*                                                                         *)
(* P-template.  One abstract case = one session string (a sequence of      *)
(* character classes, module XmlText) placed in one string-carrying        *)
(* position of saml.Session, under one deployment configuration.  The      *)
(* stages of the real pipeline are the actions, in the code's order:       *)
(*                                                                         *)
(*   Publish     ServiceProvider.Metadata()          service_provider.go   *)
(*   Register    xml.Marshal / xml.Unmarshal, registry keyed by entity ID  *)
(*   Request     MakeAuthenticationRequest + Redirect / Post               *)
(*   Validate    NewIdpAuthnRequest + Validate      identity_provider.go   *)
(*   Build       DefaultAssertionMaker.MakeAssertion + Element() builders  *)
(*   C14NSign    Assertion.Element (TransformExcC14n) + SignEnveloped      *)
(*   Encrypt     getSPEncryptionCert + doc.WriteToBytes + xmlenc OAEP/CBC  *)
(*   SignResp    MakeResponse: SignEnveloped(Response)                     *)
(*   Serialise   PostBinding: doc.WriteToBytes                             *)
(*   Base64      form.SAMLResponse                                         *)
(*   Parse       ParseXMLResponse: etree.ReadFromBytes                     *)
(*   Verify      validateSignature(Response): exc-c14n + digest compare    *)
(*   Decrypt     decryptElement + etree.ReadFromBytes of the plaintext     *)
(*   Reserialise elementToBytes: doc.WriteToBytes                          *)
(*   Unmarshal   xml.Unmarshal into saml.Assertion                         *)
(*                                                                         *)
(* The machine is run in two instantiations, chosen in Init:               *)
(*   impl = "required": every writer is a SAFE writer in the sense of      *)
(*        XmlText (the canonical escape table), encryption is advertised   *)
(*        only for a key the SP can decrypt with, and the SP-side parser   *)
(*        is either a conforming XML 1.0 processor or encoding/xml;        *)
(*   impl = "actual":   the writers, the parser and the metadata generator *)
(*        of the code (constants Writer, EncAdvert).                       *)
(* The Properties section (from the statement only) is checked on the      *)
(* required instantiation; the actual instantiation is what predicts the   *)
(* outcome of every vector on the real code, and TLC checks that the two   *)
(* differ only where a NAMED deviation is touched.                         *)
(***************************************************************************)
EXTENDS XmlText, TLC, Json

CONSTANTS MaxLen,      \* bound on class-string length in family "text" (2 quick / 3 thorough)
          Families,    \* subset of {"text", "cfg"}
          Writer,      \* the code's serialiser (PostBinding, signedAssertionBuf, elementToBytes):
                       \*   "etreeDefault" (pinned tree) | "etreeCanonicalText" (fixes/C07-cr-canonical-text.patch)
                       \*   | "etreeCanonical" (both canonical settings: rejected candidate, breaks "]]>" in attributes)
          EncAdvert    \* ServiceProvider.Metadata: "always" (pinned: use="encryption" for any certificate) | "rsaOnly"

(****************************** named deviations ****************************)
\* RawCRInText / RawCRInAttr / RawWsInAttr / RawGtInCanonicalAttr: see XmlText (etree's write settings).
\* RejectsCdataEndInAttr: see XmlText (encoding/xml).
\* AdvertisesUndecryptableKey: Metadata() publishes use="encryption" for an ECDSA certificate
\*   although only RSA key transport exists (xmlenc/pubkey.go), so the IdP's Encrypt fails.
\* NoAttrValueNormalisation: encoding/xml keeps literal TAB / LF in attribute values; with this
\*   library's SP that HIDES RawWsInAttr (digest and value are stable), so TAB / LF are predicted fine.
\* ResponseSignatureSuffices: when the Response signature verifies, parseAssertion does not check
\*   the assertion's own signature; a decrypted assertion whose text was altered by the
\*   serialise/parse legs is therefore accepted with the altered value.
DefaultWriter              == Writer = "etreeDefault"
AdvertisesUndecryptableKey == EncAdvert = "always"

(******************************** domain ************************************)
TextPositions == {"NameID", "UserName", "UserEmail", "UserCommonName", "UserSurname", "UserGivenName",
                  "UserScopedAffiliation", "Group", "CustomValue", "SubjectID"}
AttrPositions == {"CustomName", "CustomFriendlyName", "SessionIndex"}
Positions     == TextPositions \cup AttrPositions
Ctx(pos)      == IF pos \in AttrPositions THEN "attr" ELSE "text"
\* DefaultAssertionMaker emits these attributes only for a non-empty session field (Appendix B.3)
OmittedWhenEmpty == {"UserName", "UserEmail", "UserCommonName", "UserSurname", "UserGivenName",
                     "UserScopedAffiliation", "SubjectID"}

\* explicit whitespace / empty cases beyond the length bound
ExtraStrings == { <<>>, <<"space">>, <<"space", "plain">>, <<"plain", "space">>, <<"space", "plain", "space">>,
                  <<"LF", "plain", "LF">>, <<"TAB", "plain", "TAB">>, <<"CR", "plain", "CR">>,
                  <<"plain", "CR", "LF", "plain">>, <<"space", "space", "space">>,
                  <<"plain", "cdataEnd", "plain">>, <<"commentStart", "plain", "gt">>,
                  <<"amp", "plain", "amp">>, <<"dquote", "plain", "squote">> }
TextStrings  == SeqsUpTo(Alphabet, MaxLen) \cup ExtraStrings
CfgStrings   == { <<>>, <<"plain">>, <<"amp", "lt">>, <<"CR">>, <<"space", "nonBMP", "LF">> }

IdpSigners == { [idpkey |-> k, hash |-> h] : k \in {"rsa-key", "rsa-signer"}, h \in {"default", "sha1", "sha256", "sha384", "sha512"} }
              \cup { [idpkey |-> "ecdsa-signer", hash |-> h] : h \in {"sha1", "sha256", "sha384", "sha512"} }
\* mdage: "fresh" - both parties published their metadata just now; "stale" - three days ago, so that the validUntil
\* the documents carry (two days) has passed.  The statement calls the published metadata sufficient registration
\* without a time limit, and the library reads validUntil of neither document
Cfg(e, k, b, sg, en, i) == [entityid |-> e, spkey |-> k, binding |-> b, signed |-> sg, enc |-> en,
                            idpkey |-> i.idpkey, hash |-> i.hash, mdage |-> "fresh", reqattrs |-> FALSE]
\* reqattrs: the registered SP metadata carries an AttributeConsumingService that requests user_id / email / first_name /
\* last_name / full_name (basic or unspecified name format): the assertion then ALSO carries those attributes, each with
\* the session field the library documents for it (user_id: the user name - not the name identifier)
AllCfgs == { Cfg(e, k, b, sg, en, i) : e \in {"set", "unset"}, k \in {"rsa", "ecdsa"}, b \in {"redirect", "post"},
                                       sg \in BOOLEAN, en \in {"on", "off"}, i \in IdpSigners }
\* the two deployments the "text" family is run under (x enc on / off)
TextCfgs == { Cfg("set",   "rsa", "redirect", FALSE, en, [idpkey |-> "rsa-key",      hash |-> "default"]) : en \in {"on", "off"} }
       \cup { Cfg("unset", "rsa", "post",     TRUE,  en, [idpkey |-> "ecdsa-signer", hash |-> "sha256"])  : en \in {"on", "off"} }

Case(f, pos, s, cfg) == [fam |-> f, pos |-> pos, s |-> s, cfg |-> cfg]
TextCases == { Case("text", pos, s, cfg) : pos \in Positions, s \in TextStrings, cfg \in TextCfgs }
CfgCases  == { Case("cfg",  pos, s, cfg) : pos \in {"NameID", "CustomName"}, s \in CfgStrings, cfg \in AllCfgs }
             \cup { Case("cfg", "NameID", <<"plain">>, [cfg EXCEPT !.mdage = "stale"]) : cfg \in AllCfgs }
             \cup { Case("cfg", pos, s, [cfg EXCEPT !.reqattrs = TRUE]) :
                       pos \in {"NameID", "UserName", "UserEmail", "UserGivenName", "UserSurname", "UserCommonName"},
                       s \in {<<"plain">>, <<"amp", "lt">>}, cfg \in TextCfgs }

(******************************** state *************************************)
VARIABLES c,        \* the abstract case
          impl,     \* "required" | "actual"
          parser,   \* SP-side parser of this run
          pc,
          advert,   \* SP metadata advertises an encryption key
          found,    \* IdP found the registered metadata for the request issuer
          tree,     \* [carried, present, v]: the value as built into the assertion element
          digA,     \* digest under the assertion signature
          cipher,   \* <<>> or the symbolic EncryptedData: Enc(key, iv, plaintext wire)
          digR,     \* digest under the Response signature
          wire,     \* what PostBinding wrote for the value (empty when encrypted)
          form,     \* the base64 form field
          tree2,    \* the value after the SP's parse
          wire2,    \* elementToBytes
          out,      \* the value in the returned saml.Assertion ("omitted" when the attribute is not there)
          verdict, stage
vars == <<c, impl, parser, pc, advert, found, tree, digA, cipher, digR, wire, form, tree2, wire2, out, verdict, stage>>

IdpWriterOf == IF impl = "required" THEN "safe" ELSE Writer
SpWriterOf  == IF impl = "required" THEN "safe" ELSE Writer
AdvertOf    == IF impl = "required" THEN "rsaOnly" ELSE EncAdvert

EntityIdOf(cfg) == IF cfg.entityid = "set" THEN "entityID" ELSE "metadataURL"   \* firstSet(EntityID, MetadataURL)
Digest(x) == <<"H", x>>                                                     \* uninterpreted, injective
Enc(k, iv, pt) == <<"Enc", k, iv, pt>>
ctx == Ctx(c.pos)
Encrypted == cipher # <<>>

Init == /\ \/ "text" \in Families /\ c \in TextCases      \* (a disjunction, not a union: TLC would
           \/ "cfg"  \in Families /\ c \in CfgCases       \*  deduplicate a union element by element)
        /\ \/ impl = "required" /\ parser \in Parsers
           \/ impl = "actual"   /\ parser = "go"
        /\ pc = "Publish" /\ advert = FALSE /\ found = FALSE
        /\ tree = [carried |-> FALSE, present |-> FALSE, v |-> <<>>]
        /\ digA = <<>> /\ cipher = <<>> /\ digR = <<>> /\ wire = <<>> /\ form = <<>>
        /\ tree2 = <<>> /\ wire2 = <<>> /\ out = <<>> /\ verdict = "none" /\ stage = "none"

Stop(v, st) == /\ pc' = "done" /\ verdict' = v /\ stage' = st
Goto(p)     == /\ pc' = p /\ UNCHANGED <<verdict, stage>>

\* service_provider.go:191-227: with a Certificate the first key descriptor is use="encryption"
Publish ==
  /\ pc = "Publish"
  /\ advert' = (c.cfg.enc = "on" /\ (AdvertOf = "always" \/ c.cfg.spkey = "rsa"))
  /\ Goto("Register")
  /\ UNCHANGED <<c, impl, parser, found, tree, digA, cipher, digR, wire, form, tree2, wire2, out>>

\* metadata -> XML -> metadata; the registry is keyed by EntityDescriptor.EntityID, the request
\* carries Issuer = firstSet(EntityID, MetadataURL): the same operator on both sides
Register ==
  /\ pc = "Register"
  /\ found' = (EntityIdOf(c.cfg) = EntityIdOf(c.cfg))
  /\ Goto("Validate")
  /\ UNCHANGED <<c, impl, parser, advert, tree, digA, cipher, digR, wire, form, tree2, wire2, out>>

\* identity_provider.go:358-461: both bindings decode to the same AuthnRequest; a request
\* signature is ignored (IdP metadata does not set WantAuthnRequestsSigned)
Validate ==
  /\ pc = "Validate"
  /\ IF found THEN Goto("Build") ELSE Stop("idp-error", "Validate")
  /\ UNCHANGED <<c, impl, parser, advert, found, tree, digA, cipher, digR, wire, form, tree2, wire2, out>>

\* identity_provider.go:655-775 and schema.go Element(): which node carries the string
Build ==
  /\ pc = "Build"
  /\ tree' = IF c.s = <<>> /\ c.pos \in OmittedWhenEmpty
               THEN [carried |-> FALSE, present |-> FALSE, v |-> <<>>]       \* no Attribute element at all
             ELSE IF c.s = <<>> /\ (c.pos \in AttrPositions \/ c.pos = "NameID")
               THEN [carried |-> TRUE, present |-> FALSE, v |-> <<>>]        \* XML attribute / text node not created
             ELSE [carried |-> TRUE, present |-> TRUE, v |-> c.s]
  /\ Goto("C14NSign")
  /\ UNCHANGED <<c, impl, parser, advert, found, digA, cipher, digR, wire, form, tree2, wire2, out>>

\* schema.go:770 + MakeAssertionEl: digest of the canonical octets
C14NSign ==
  /\ pc = "C14NSign"
  /\ digA' = Digest(Write("c14n", ctx, tree.v))
  /\ Goto(IF advert THEN "Encrypt" ELSE "SignResp")
  /\ UNCHANGED <<c, impl, parser, advert, found, tree, cipher, digR, wire, form, tree2, wire2, out>>

\* identity_provider.go:873-903: the signed assertion is SERIALISED (first write) and encrypted;
\* xmlenc/pubkey.go:38: only an RSA public key is accepted
Encrypt ==
  /\ pc = "Encrypt"
  /\ IF c.cfg.spkey # "rsa"
       THEN Stop("idp-error", "Encrypt") /\ UNCHANGED cipher
       ELSE cipher' = Enc("freshKey", "freshIV", Write(IdpWriterOf, ctx, tree.v)) /\ Goto("SignResp")
  /\ UNCHANGED <<c, impl, parser, advert, found, tree, digA, digR, wire, form, tree2, wire2, out>>

\* MakeResponse: the Response signature covers the assertion in canonical form, or the ciphertext
SignResp ==
  /\ pc = "SignResp"
  /\ digR' = IF Encrypted THEN Digest(<<"b64", "cipher">>) ELSE Digest(Write("c14n", ctx, tree.v))
  /\ Goto("Serialise")
  /\ UNCHANGED <<c, impl, parser, advert, found, tree, digA, cipher, wire, form, tree2, wire2, out>>

\* PostBinding: doc.WriteToBytes (base64 CipherValue text needs no escaping)
Serialise ==
  /\ pc = "Serialise"
  /\ wire' = IF Encrypted THEN <<>> ELSE Write(IdpWriterOf, ctx, tree.v)
  /\ Goto("Base64")
  /\ UNCHANGED <<c, impl, parser, advert, found, tree, digA, cipher, digR, form, tree2, wire2, out>>

Base64 ==
  /\ pc = "Base64"
  /\ form' = <<"b64", IF Encrypted THEN cipher ELSE wire>>
  /\ Goto("Parse")
  /\ UNCHANGED <<c, impl, parser, advert, found, tree, digA, cipher, digR, wire, tree2, wire2, out>>

\* ParseXMLResponse: etree reads the decoded form
ParseForm ==
  /\ pc = "Parse"
  /\ IF ~Encrypted /\ ParseRejects(parser, ctx, form[2])
       THEN Stop("reject", "Parse") /\ UNCHANGED tree2                 \* xrv.Validate / etree: not well-formed
       ELSE tree2' = (IF Encrypted THEN <<>> ELSE Parse(parser, ctx, form[2])) /\ Goto("Verify")
  /\ UNCHANGED <<c, impl, parser, advert, found, tree, digA, cipher, digR, wire, form, wire2, out>>

\* validateSignature(Response): canonicalise what was parsed, compare digests
Verify ==
  /\ pc = "Verify"
  /\ LET d == IF Encrypted THEN Digest(<<"b64", "cipher">>) ELSE Digest(Write("c14n", ctx, tree2)) IN
       IF d # digR THEN Stop("reject", "ResponseSignature")
       ELSE Goto(IF Encrypted THEN "Decrypt" ELSE "Reserialise")
  /\ UNCHANGED <<c, impl, parser, advert, found, tree, digA, cipher, digR, wire, form, tree2, wire2, out>>

\* decryptElement: the plaintext is parsed (second parse of the first write); because the Response
\* signature verified, the assertion's own signature is not consulted (ResponseSignatureSuffices)
Decrypt ==
  /\ pc = "Decrypt"
  /\ IF ParseRejects(parser, ctx, cipher[4])
       THEN Stop("reject", "Decrypt") /\ UNCHANGED tree2
       ELSE tree2' = Parse(parser, ctx, cipher[4]) /\ Goto("Reserialise")
  /\ UNCHANGED <<c, impl, parser, advert, found, tree, digA, cipher, digR, wire, form, wire2, out>>

\* elementToBytes: second write
Reserialise ==
  /\ pc = "Reserialise"
  /\ wire2' = Write(SpWriterOf, ctx, tree2)
  /\ Goto("Unmarshal")
  /\ UNCHANGED <<c, impl, parser, advert, found, tree, digA, cipher, digR, wire, form, tree2, out>>

\* xml.Unmarshal: an absent attribute / empty element reads as ""
Unmarshal ==
  /\ pc = "Unmarshal"
  /\ IF ParseRejects(parser, ctx, wire2)
       THEN Stop("reject", "Unmarshal") /\ UNCHANGED out
       ELSE out' = (IF ~tree.carried THEN <<"omitted">> ELSE Parse(parser, ctx, wire2)) /\ Stop("accept", "none")
  /\ UNCHANGED <<c, impl, parser, advert, found, tree, digA, cipher, digR, wire, form, tree2, wire2>>

Next == Publish \/ Register \/ Validate \/ Build \/ C14NSign \/ Encrypt \/ SignResp \/ Serialise \/ Base64
        \/ ParseForm \/ Verify \/ Decrypt \/ Reserialise \/ Unmarshal
Spec == Init /\ [][Next]_vars

(***************************************************************************)
(*                   Properties (from the statement only)                  *)
(***************************************************************************)
Done == pc = "done"
\* "for every session made of any characters XML can represent, every registered SP metadata, every
\*  supported signature method and key type: the response is accepted and the returned assertion
\*  carries exactly the session's name identifier and attribute names and values"
InScope    == AllRepresentable(c.s)
Expected   == IF c.s = <<>> /\ c.pos \in OmittedWhenEmpty THEN <<"omitted">> ELSE c.s   \* what the session dictates
Class      == IF InScope THEN "MustAccept" ELSE "DontCare"
RoundTrips == verdict = "accept" /\ out = Expected

\* the two invariants of the design, over the REQUIRED pipeline, for both parsers
DigestStable    == Done /\ impl = "required" /\ InScope => stage \notin {"ResponseSignature", "Parse", "Decrypt", "Unmarshal"}
ValueRoundTrips == Done /\ impl = "required" /\ InScope => RoundTrips
\* a fresh content key and IV are part of every ciphertext; user text is never in the form when encrypted
EncryptedCarriesNoText == Done /\ Encrypted => wire = <<>> /\ form[2] = cipher

\* the model of the code differs from the required pipeline only where a named deviation is touched
\* a class of the string for which the code's writer is not safe with the code's parser
TouchesCR          == \E i \in 1..Len(c.s) : c.s[i] \in Representable /\
                        LET w == Write(Writer, ctx, <<c.s[i]>>) IN
                        ParseRejects("go", ctx, w) \/ Parse("go", ctx, w) # <<c.s[i]>>
TouchesKeyAdvert   == AdvertisesUndecryptableKey /\ c.cfg.enc = "on" /\ c.cfg.spkey # "rsa"
TouchesDeviation   == TouchesCR \/ TouchesKeyAdvert
OnlyNamedDeviations == Done /\ impl = "actual" /\ InScope /\ ~TouchesDeviation => RoundTrips
DeviationsBreak     == Done /\ impl = "actual" /\ InScope /\ TouchesDeviation => ~RoundTrips
ExactlyOneVerdict   == Done => verdict \in {"accept", "reject", "idp-error"}

(***************************** vector emission *****************************)
Vec == [prop |-> "C07", fam |-> c.fam, pos |-> c.pos, kind |-> ctx, s |-> c.s, cfg |-> c.cfg, class |-> Class,
        expected |-> Expected,
        pred |-> [verdict |-> verdict, stage |-> stage, equal |-> RoundTrips, encrypted |-> Encrypted,
                  c14n    |-> Forms(Write("c14n", ctx, tree.v)),
                  wire    |-> Forms(IF Encrypted THEN cipher[4] ELSE wire),
                  pmap    |-> ParseMap(parser, ctx, IF Encrypted THEN cipher[4] ELSE wire),
                  parsed  |-> tree2, out |-> out]]
Emit == Done /\ impl = "actual" => PrintT(<<"VEC", ToJson(Vec)>>)
=============================================================================
