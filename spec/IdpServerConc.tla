--------------------------- MODULE IdpServerConc ---------------------------
(***************************************************************************)
(* C20 - the bundled IdP server and its in-memory store under concurrent   *)
(* requests.                                                               *)
(*                                                                         *)
(* Each request handler is a *program*: the sequence of lock operations    *)
(* and guarded map accesses it performs.  The programs are not written by  *)
(* hand: module C20Programs is generated, on every run, from traces the    *)
(* harness records from the real server (hooks of build tag "verif"; the   *)
(* recording hook measures with TryLock/TryRLock which lock is really held *)
(* and keeps only what it measured).                                       *)
(*                                                                         *)
(* This module runs NProcs programs concurrently under the semantics of    *)
(* Go's sync.RWMutex (a blocked Lock call excludes new readers; read locks *)
(* are not re-entrant when a writer is pending) and looks for the two bad  *)
(* things the property names: a data race (two requests inside conflicting *)
(* access windows of the same map) and a deadlock (some request can never  *)
(* complete).  Bad states are emitted as counterexample schedules for the  *)
(* harness to replay on the real server; only reproduced ones are          *)
(* violations.                                                             *)
(***************************************************************************)
EXTENDS Integers, Sequences, FiniteSets, TLC, Json, C20Programs

CONSTANT NProcs        \* number of concurrent requests (2, 3 or 4)

Procs   == 1..NProcs
Mutexes == {"cfg", "store"}
NoWin   == [r |-> "", w |-> FALSE]

VARIABLES assign,      \* which program each process runs
          pc,          \* next operation of each process
          readers,     \* readers[m][p]: read locks of m held by p (a bag: re-entrancy is visible)
          writer,      \* writer[m]: process holding m for writing, 0 if none
          pending,     \* pending[m]: processes blocked in Lock(m) (they exclude new readers)
          win,         \* win[p]: the map-access window p is inside
          sched        \* history: the schedule that led here (not part of the VIEW)
vars == <<assign, pc, readers, writer, pending, win, sched>>
View == <<assign, pc, readers, writer, pending, win>>

Prog(p) == Programs[assign[p]]
Done(p) == pc[p] > Len(Prog(p))
Cur(p)  == Prog(p)[pc[p]]

\* programs chosen in non-decreasing order (interleavings are symmetric in the processes)
Assignments == { a \in [Procs -> Selected] : \A p \in Procs : p < NProcs => a[p] <= a[p + 1] }

Init == /\ assign \in Assignments
        /\ pc = [p \in Procs |-> 1]
        /\ readers = [m \in Mutexes |-> [p \in Procs |-> 0]]
        /\ writer = [m \in Mutexes |-> 0]
        /\ pending = [m \in Mutexes |-> {}]
        /\ win = [p \in Procs |-> NoWin]
        /\ sched = <<>>

(************************* sync.RWMutex (GoSync) ***************************)
NoReaders(m) == \A q \in Procs : readers[m][q] = 0
CanRLock(p, m) == writer[m] = 0 /\ pending[m] = {}
CanAcquire(p, m) == writer[m] = 0 /\ NoReaders(m)

CanStep(p) ==
  /\ ~Done(p)
  /\ LET o == Cur(p) IN
       CASE o.k = "RLock" -> CanRLock(p, o.x)
         [] o.k = "Lock"  -> (p \notin pending[o.x]) \/ CanAcquire(p, o.x)
         [] OTHER -> TRUE

Advance(p) == pc' = [pc EXCEPT ![p] = @ + 1]

Step(p) ==
  /\ CanStep(p)
  /\ LET o == Cur(p) IN
     CASE o.k = "RLock" ->
            /\ readers' = [readers EXCEPT ![o.x][p] = @ + 1]
            /\ Advance(p) /\ UNCHANGED <<writer, pending, win>>
       [] o.k = "RUnlock" ->
            /\ readers' = [readers EXCEPT ![o.x][p] = IF @ > 0 THEN @ - 1 ELSE 0]
            /\ Advance(p) /\ UNCHANGED <<writer, pending, win>>
       [] o.k = "Lock" ->
            IF p \notin pending[o.x]
              THEN \* the call to Lock(): from now on new readers are excluded
                   /\ pending' = [pending EXCEPT ![o.x] = @ \cup {p}]
                   /\ UNCHANGED <<pc, readers, writer, win>>
              ELSE /\ writer' = [writer EXCEPT ![o.x] = p]
                   /\ pending' = [pending EXCEPT ![o.x] = @ \ {p}]
                   /\ Advance(p) /\ UNCHANGED <<readers, win>>
       [] o.k = "Unlock" ->
            /\ writer' = [writer EXCEPT ![o.x] = IF @ = p THEN 0 ELSE @]
            /\ Advance(p) /\ UNCHANGED <<readers, pending, win>>
       [] o.k \in {"RB", "WB"} ->
            /\ win' = [win EXCEPT ![p] = [r |-> o.x, w |-> (o.k = "WB")]]
            /\ Advance(p) /\ UNCHANGED <<readers, writer, pending>>
       [] o.k \in {"RE", "WE"} ->
            /\ win' = [win EXCEPT ![p] = NoWin]
            /\ Advance(p) /\ UNCHANGED <<readers, writer, pending>>
  /\ sched' = Append(sched, p)
  /\ UNCHANGED assign

(******************************* bad states ********************************)
RacePair(p, q) == /\ p # q /\ win[p].r # "" /\ win[p].r = win[q].r /\ (win[p].w \/ win[q].w)
Race     == \E p, q \in Procs : RacePair(p, q)
Deadlock == (\E p \in Procs : ~Done(p)) /\ (\A p \in Procs : ~CanStep(p))
Bad      == Race \/ Deadlock

\* exploration stops at a bad state (it is emitted, and replayed on the real server)
Next == ~Bad /\ \E p \in Procs : Step(p)
Spec == Init /\ [][Next]_vars /\ \A p \in Procs : WF_vars(Step(p))

(******************************** properties *******************************)
\* internal consistency of the mutex model
MutualExclusion == \A m \in Mutexes : writer[m] # 0 => NoReaders(m)
\* the property itself, on the model of the mined programs; NOT registered as an
\* invariant: candidates are emitted and confirmed on the real code instead
NoRace     == ~Race
NoDeadlock == ~Deadlock
AllDone    == \A p \in Procs : Done(p)
\* every request completes (checked as a temporal property in the thorough tier)
Completes  == <>(AllDone \/ Bad)

Blocked == { p \in Procs : ~Done(p) /\ ~CanStep(p) }
Emit == Bad => PrintT(<<"CEX", ToJson([kind |-> IF Race THEN "race" ELSE "deadlock",
                                        progs |-> [p \in Procs |-> ProgNames[assign[p]]],
                                        assign |-> assign, pcs |-> pc, sched |-> sched,
                                        wins |-> [p \in Procs |-> win[p]],
                                        blockedOn |-> [p \in Procs |-> IF p \in Blocked THEN Cur(p) ELSE [k |-> "", x |-> ""]]])>>)
=============================================================================
