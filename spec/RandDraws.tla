------------------------------ MODULE RandDraws ------------------------------
(***************************************************************************)
(* C08, "a fresh content-encryption key and IV are drawn for every         *)
(* response" when responses are produced CONCURRENTLY: every encryption    *)
(* reads the one process-wide random source xmlenc.RandReader.  The        *)
(* source is modelled as a generator with a position; a read is either one *)
(* atomic step (a source that is safe for concurrent use, as               *)
(* crypto/rand.Reader is) or - named deviation UnsynchronisedSource - a    *)
(* load and a store that other readers can interleave with (a generator    *)
(* with unsynchronised internal state).  Each of Procs encryptions draws   *)
(* Words words (content key, IV); Fresh says no word is handed out twice.  *)
(* TLC proves Fresh over all interleavings for the atomic source and       *)
(* refutes it for the deviation (RandDraws_dev.cfg); the harness runs real *)
(* encryptions and whole IdP responses on many goroutines and checks Fresh *)
(* on what they emitted (harness/c08_concurrent_test.go).                  *)
(***************************************************************************)
EXTENDS Integers, Sequences, FiniteSets, TLC

CONSTANTS Procs, Words, UnsynchronisedSource

VARIABLES pos,    \* position of the generator
          tmp,    \* proc -> position loaded (unsynchronised source only), -1 when none
          out     \* proc -> words drawn so far
vars == <<pos, tmp, out>>

Init == pos = 0 /\ tmp = [p \in Procs |-> -1] /\ out = [p \in Procs |-> <<>>]

ReadAtomic(p) ==
  /\ ~UnsynchronisedSource /\ Len(out[p]) < Words
  /\ out' = [out EXCEPT ![p] = Append(@, pos)] /\ pos' = pos + 1 /\ UNCHANGED tmp
Load(p) ==
  /\ UnsynchronisedSource /\ Len(out[p]) < Words /\ tmp[p] = -1
  /\ tmp' = [tmp EXCEPT ![p] = pos] /\ UNCHANGED <<pos, out>>
Store(p) ==
  /\ UnsynchronisedSource /\ tmp[p] # -1
  /\ out' = [out EXCEPT ![p] = Append(@, tmp[p])] /\ pos' = tmp[p] + 1 /\ tmp' = [tmp EXCEPT ![p] = -1]

Next == \E p \in Procs : ReadAtomic(p) \/ Load(p) \/ Store(p)
Spec == Init /\ [][Next]_vars

Drawn == { <<p, i>> : p \in Procs, i \in 1..Words }
Fresh == \A a, b \in Drawn : /\ a # b /\ a[2] <= Len(out[a[1]]) /\ b[2] <= Len(out[b[1]])
                             => out[a[1]][a[2]] # out[b[1]][b[2]]
=============================================================================
