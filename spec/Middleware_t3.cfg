CONSTANTS
  NFlows = 3
  Users = {"alice"}
  MaxNet = 1
  MaxClock = 2
  MaxHostile = 1
INIT Init
NEXT Next
VIEW View
PROPERTIES
  SessionOnlyForInitiator
  RedirectOnlyToRecorded
  RefusedMeansNoSession
  FaithfulFlowsComplete
  AfterLifetimeRefused
  EmitEdge
CHECK_DEADLOCK FALSE
