CONSTANTS
  MaxLen = 3
INIT Init
NEXT Next
INVARIANTS
  HistoryFree
  OnlyExactServed
  Emit
CHECK_DEADLOCK FALSE
