CONSTANTS
  MaxLen = 3
INIT Init
NEXT Next
INVARIANTS
  HistoryFree
  Emit
CHECK_DEADLOCK FALSE
