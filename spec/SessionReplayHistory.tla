------------------------ MODULE SessionReplayHistory ------------------------
(***************************************************************************)
(* C16 over the life of ONE PROCESS that hosts several deployments of the  *)
(* samlsp middleware (multi-tenant server, key roll-over, staging next to  *)
(* production).  Whether a presented cookie authenticates depends on the   *)
(* token, on the deployment it is presented to and on the clock - never on *)
(* what this or any other deployment of the process accepted before (a     *)
(* package-level cache, a "last verified" slot, a shared parser).          *)
(*                                                                         *)
(* Deployments (samlsp.New with its own URL and key):                      *)
(*    A    url uA  key k1      uA has a non-root path                      *)
(*    B1   url uB  key k2      other URL (another origin) and other key    *)
(*    B2   url uA  key k2      same URL, other key (rolled-over key)       *)
(*    B3   url uB  key k1      same key, other URL (= audience and issuer) *)
(* and the SIBLINGS of A - key k1, same scheme and host, an Options.URL    *)
(* that differs from uA in one respect (two applications behind one        *)
(* reverse proxy that share a key pair):                                   *)
(*    Sp   only the path         Sq   only the query                       *)
(*    Ss   only a trailing slash Sc   only the letter case of the host     *)
(* A history is over A and the B's (grp "base") or over A and its siblings *)
(* (grp "sib": every presentation is to the minting deployment itself or   *)
(* between A and a sibling).  Its first step is Build: samlsp.New derives  *)
(* each deployment's audience and issuer from its URL (SessionTokenUrl:    *)
(* DeriveAudience, named deviation AudienceIsUrlRoot).                     *)
(* k1 and k2 are RSA or ECDSA keys (fam).  Every deployment named in       *)
(* Minters mints, at clock 0, one session token (CreateSession) and one    *)
(* request-tracking token (TrackRequest).  A step presents one of these    *)
(* token strings to one deployment at a clock position; the clock never    *)
(* runs backwards.  Present mirrors, check by check and in the code's      *)
(* order, JWTSessionCodec.Decode (session_jwt.go:91-113) and               *)
(* JWTTrackedRequestCodec.Decode (request_tracker_jwt.go:51-72) on top of  *)
(* golang-jwt's parser - see SessionToken.tla for the single checks.       *)
(*                                                                         *)
(* Every history of MaxLen steps (DeepLen steps over the tokens of          *)
(* DeepMinters under the key families DeepFams) in which the model accepts *)
(* something is emitted and replayed, in order, on real middlewares that   *)
(* live in one process (harness/c16_replay_history_test.go); shorter       *)
(* histories are prefixes of these.                                        *)
(*                                                                         *)
(* The Properties section is written from the statement of C16 only.       *)
(***************************************************************************)
EXTENDS Integers, Sequences, FiniteSets, TLC, Json, SessionTokenUrl

CONSTANTS MaxLen,            \* steps per history
          Minters,           \* deployments whose tokens are presented
          Fams,              \* key families of (k1, k2)
          DeepLen, DeepMinters, DeepFams,   \* longer histories over fewer tokens and families
          SibFams,           \* key families under which the histories over A and its siblings are explored
          ProcessWideCache   \* named deviation, FALSE in the code: Decode remembers, in package-level
                             \* state keyed by the token string, every token that passed, and on a hit
                             \* re-checks the time window only.  TRUE is the design-level counterpart of
                             \* the code change this module exists to catch: TLC then reports
                             \* OnlyOwnFreshSessionTokens and HistoryIndependent violated.
\* AudienceIsUrlRoot (SessionTokenUrl) is FALSE in the registered configurations _q and _t; the
\* registered configuration _dev has it TRUE and TLC must then report OnlyOwnFreshSessionTokens
\* violated (A's session token presented to the path sibling).

Names == {"A", "B1", "B2", "B3"}
Sibs  == {"Sp", "Sq", "Ss", "Sc"}
AllNames == Names \cup Sibs
UA == Url("sp", "/wiki/", "")
UB == OtherOrigin(UA)
DeplDef(n) == CASE n = "A"  -> [url |-> UA, key |-> "k1"]
             [] n = "B1" -> [url |-> UB, key |-> "k2"]
             [] n = "B2" -> [url |-> UA, key |-> "k2"]
             [] n = "B3" -> [url |-> UB, key |-> "k1"]
             [] n = "Sp" -> [url |-> Sibling(UA, "sibPath"), key |-> "k1"]
             [] n = "Sq" -> [url |-> Sibling(UA, "sibQuery"), key |-> "k1"]
             [] n = "Ss" -> [url |-> Sibling(UA, "sibSlash"), key |-> "k1"]
             [] n = "Sc" -> [url |-> Sibling(UA, "sibCase"), key |-> "k1"]
DeplTab == [n \in AllNames |-> DeplDef(n)]      \* (a constant: evaluated once)
Depl(n) == DeplTab[n]
Fam(k1, k2) == [k1 |-> k1, k2 |-> k2]
FamsQuick   == { Fam("RSA", "RSA"), Fam("ECDSA", "ECDSA"), Fam("RSA", "ECDSA") }
FamsAll     == { Fam(a, b) : a \in {"RSA", "ECDSA"}, b \in {"RSA", "ECDSA"} }
MintersTwo  == {"A", "B1"}
FamsDeep    == { Fam("ECDSA", "ECDSA") }
FamsDeepT   == { Fam("RSA", "ECDSA") }
FamsSibQ    == { Fam("RSA", "ECDSA") }                         \* (only k1 matters to A and its siblings)
FamsSibT    == { Fam("RSA", "ECDSA"), Fam("ECDSA", "ECDSA") }
ASSUME DeepMinters \subseteq Minters /\ DeepFams \subseteq Fams /\ DeepLen >= MaxLen /\ SibFams \subseteq Fams
KeyFam(f, k) == IF k = "k1" THEN f.k1 ELSE f.k2

Kinds    == {"session", "tracking"}
\* one token string per minting deployment and kind: [by, kind]
SessLife == 3600                                   \* defaultSessionMaxAge
TrkLife  == 90                                     \* saml.MaxIssueDelay
LifeOf(kind) == IF kind = "session" THEN SessLife ELSE TrkLife
\* clock positions, seconds after the mint: before it, inside both lifetimes, beyond both
Positions == {"early", "fresh", "late"}
At(p)  == CASE p = "early" -> -30 [] p = "fresh" -> 30 [] p = "late" -> SessLife + 60
Ord(p) == CASE p = "early" -> 1 [] p = "fresh" -> 2 [] p = "late" -> 3

VARIABLES fam,     \* key families of k1, k2
          grp,     \* "base": A and the B's | "sib": A and its siblings
          up,      \* the deployments have been built
          ident,   \* per deployment: the audience = issuer samlsp.New gave its codecs
          clock,   \* current clock position
          cache,   \* tokens remembered by the process (always {} unless ProcessWideCache)
          hist     \* the steps so far, with the verdicts
vars == <<fam, grp, up, ident, clock, cache, hist>>
GroupNames == IF grp = "base" THEN Names ELSE {"A"} \cup Sibs

----------------------------------------------------------------------------
(* one presentation, check by check *)
\* the checks of codec c ("sess" | "trk") of deployment y on token t at position p, in code order;
\* a tracking token carries its audience as a JSON array, which does not decode into the
\* session codec's StandardClaims
Checks(c, t, y, p) ==
  << <<"Claims",     c = "trk" \/ t.kind = "session">>,
     <<"AlgAllowed", KeyFam(fam, Depl(t.by).key) = KeyFam(fam, Depl(y).key)>>,
     <<"Signature",  Depl(t.by).key = Depl(y).key>>,
     <<"Times",      0 <= At(p) /\ At(p) < LifeOf(t.kind)>>,
     <<"Audience",   ident[t.by] = ident[y]>>,      \* what the minter's codec stamped = what y's codec requires
     <<"Issuer",     ident[t.by] = ident[y]>>,
     <<"Marker",     t.kind = (IF c = "sess" THEN "session" ELSE "tracking")>> >>
FirstFail(ch) == IF \A i \in DOMAIN ch : ch[i][2] THEN "none"
                 ELSE ch[CHOOSE i \in DOMAIN ch : ~ch[i][2] /\ \A j \in 1..(i - 1) : ch[j][2]][1]
Decode(c, t, y, p) == LET f == FirstFail(Checks(c, t, y, p))
                      IN [verdict |-> IF f = "none" THEN "accept" ELSE "reject", step |-> f]
\* deviation ProcessWideCache: a remembered string skips everything but the time window
SessDecode(t, y, p) ==
  IF ProcessWideCache /\ t \in cache
    THEN (IF Checks("sess", t, y, p)[4][2] THEN [verdict |-> "accept", step |-> "none"]
                                           ELSE Decode("sess", t, y, p))
    ELSE Decode("sess", t, y, p)

Init == /\ fam \in Fams /\ grp \in {"base", "sib"} /\ (grp = "sib" => fam \in SibFams)
        /\ up = FALSE /\ ident = [n \in GroupNames |-> NoUrl]
        /\ clock = "early" /\ cache = {} /\ hist = <<>>

\* samlsp.New for every deployment of the process (new.go:53-60, :84-92): Audience = Issuer =
\* opts.URL.String() for the session codec and for the tracked-request codec
Build == /\ ~up /\ up' = TRUE
         /\ ident' = [n \in GroupNames |-> DeriveAudience(Depl(n).url)]
         /\ UNCHANGED <<fam, grp, clock, cache, hist>>

\* token t is sent to deployment y, in its session cookie (RequireAccount) and under
\* saml_<sub> (GetTrackedRequests), at clock position p
Deep == grp = "base" /\ fam \in DeepFams /\ \A i \in DOMAIN hist : hist[i].by \in DeepMinters
GroupMinters == IF grp = "base" THEN Minters ELSE GroupNames
InGroup(by, y) == grp = "sib" => ~(by # y /\ by # "A" /\ y # "A")
Present(t, y, p) ==
  /\ up /\ InGroup(t.by, y)
  /\ Len(hist) < (IF Deep /\ t.by \in DeepMinters THEN DeepLen ELSE MaxLen)
  /\ Ord(p) >= Ord(clock)
  /\ LET s == SessDecode(t, y, p)
     IN /\ hist' = Append(hist, [by |-> t.by, kind |-> t.kind, to |-> y, p |-> p, at |-> At(p),
                                 sess |-> s, trk |-> Decode("trk", t, y, p),
                                 out |-> IF s.verdict = "accept" THEN "handler" ELSE "flow"])
        /\ cache' = IF ~ProcessWideCache THEN cache
                    ELSE IF s.verdict = "accept" THEN cache \cup {t} ELSE cache \ {t}
  /\ clock' = p /\ UNCHANGED <<fam, grp, up, ident>>
Next == Build \/ \E b \in GroupMinters, k \in Kinds, y \in GroupNames, p \in Positions : Present([by |-> b, kind |-> k], y, p)
Spec == Init /\ [][Next]_vars

(************************** Properties (statement) *************************)
\* "only if it presents a session token that this SP's session codec issued - same key, issuer
\*  and audience - no longer ago than the session lifetime; anything else, including tokens signed
\*  by another key ..., request-tracking tokens minted by the same SP, expired or not-yet-valid
\*  tokens, tokens for another audience or issuer ... yields no session"
\* "another audience or issuer": the token was minted by the codec of a deployment whose Options.URL is
\* not the receiving deployment's - another origin, or a sibling's URL that differs in the path, the
\* query, a trailing slash or the letter case of the host - whatever either derives from its URL
Why(h) == [otherKey   |-> Depl(h.by).key # Depl(h.to).key,
           otherAud   |-> ~SameDeployment(Depl(h.by).url, Depl(h.to).url),     \* (the same URL in another spelling: left open)
           otherIss   |-> ~SameDeployment(Depl(h.by).url, Depl(h.to).url),
           notSession |-> h.kind # "session",
           expired    |-> h.at >= SessLife + 1,
           notYet     |-> h.at <= -1]
MustReject(h) == \E f \in DOMAIN Why(h) : Why(h)[f]
MustAccept(h) == h.kind = "session" /\ h.by = h.to /\ h.at >= 1 /\ h.at <= SessLife - 1
Class(h) == IF MustReject(h) THEN "MustReject" ELSE IF MustAccept(h) THEN "MustAccept" ELSE "DontCare"
Ran(h) == h.out = "handler"

OnlyOwnFreshSessionTokens    == \A i \in DOMAIN hist : MustReject(hist[i]) => ~Ran(hist[i])
OwnFreshSessionAuthenticates == \A i \in DOMAIN hist : MustAccept(hist[i]) => Ran(hist[i])
\* the verdict of a presentation is a function of (minting deployment, receiving deployment,
\* clock position, token kind) alone: whatever was presented and accepted before, anywhere
Sym(h) == <<h.by, h.kind, h.to, h.p>>
HistoryIndependent == \A i, j \in DOMAIN hist : Sym(hist[i]) = Sym(hist[j]) => Ran(hist[i]) = Ran(hist[j])
\* no clock position sits on a boundary second: every presentation is decided by the statement
\* every presentation is decided by the statement - except a token presented to the same deployment under another spelling of its URL
Decided == \A i \in DOMAIN hist : Class(hist[i]) # "DontCare" \/ (hist[i].by # hist[i].to /\ SameDeployment(Depl(hist[i].by).url, Depl(hist[i].to).url))
CacheUnused == ~ProcessWideCache => cache = {}

(***************************** history emission ****************************)
\* a history in which nothing is ever accepted by either codec cannot show a dependence on
\* earlier acceptances; of the longer histories only those in which the session codec accepts
\* (a presentation the statement requires to authenticate) are kept
SessAccepts   == \E i \in DOMAIN hist : hist[i].sess.verdict = "accept"
EitherAccepts == \E i \in DOMAIN hist : hist[i].sess.verdict = "accept" \/ hist[i].trk.verdict = "accept"
\* (of the histories over A and its siblings only those in which a sibling takes part: the others are
\* histories of the base group)
WithSibling   == grp = "sib" => \E i \in DOMAIN hist : hist[i].by \in Sibs \/ hist[i].to \in Sibs
Emitted == \/ Len(hist) = MaxLen /\ ~Deep /\ EitherAccepts /\ WithSibling
           \/ Len(hist) = DeepLen /\ Deep /\ SessAccepts
           \/ Len(hist) = MaxLen /\ Deep /\ EitherAccepts /\ ~SessAccepts
Emit == Emitted =>
          PrintT(<<"RHIST", ToJson([fam |-> fam, grp |-> grp,
                                    steps |-> [i \in DOMAIN hist |->
                                                 [by |-> hist[i].by, kind |-> hist[i].kind, to |-> hist[i].to,
                                                  p |-> hist[i].p, at |-> hist[i].at, class |-> Class(hist[i]),
                                                  why |-> Why(hist[i]), sess |-> hist[i].sess, trk |-> hist[i].trk,
                                                  out |-> hist[i].out]]])>>)
\* the table of deployments of a group, once per (fam, grp): Options.URL, key, and the audience = issuer
\* step Build derived
EmitDepls == (up /\ hist = <<>>) =>
          PrintT(<<"RDEPL", ToJson([fam |-> fam, grp |-> grp,
                                    depls |-> [n \in GroupNames |-> [url |-> Depl(n).url, key |-> Depl(n).key, aud |-> ident[n]]]])>>)
=============================================================================
