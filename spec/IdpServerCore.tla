------------------------------ MODULE IdpServerCore ------------------------------
(***************************************************************************)
(* C19 - the bundled IdP server (package samlidp) over a key/value Store.  *)
(*                                                                         *)
(* State = the four key spaces of the store (users, services, shortcuts,   *)
(* sessions) plus the server's in-memory service registry.  Actions = the  *)
(* HTTP routes (samlidp.go InitializeHTTP), a clock tick of 25 minutes     *)
(* (sessions live one hour: age 3 = expired), a restart (a new server over *)
(* the same store) and "the n-th store operation of this request fails".   *)
(* act / reply carry the last request and the projection of its reply      *)
(* that the harness can observe on the real server; they are not part of   *)
(* the VIEW.  Every transition TLC explores is printed (EmitEdge) and      *)
(* executed once on the real server from a snapshot of its source state.   *)
(*                                                                         *)
(* Abstract values: password classes p1 / e (empty string) ("none": no hash stored,        *)
(* "absent": no such user), attribute versions 1/2 of a user record (what  *)
(* "describes the user as stored at login" is judged on), entity IDs       *)
(* e1/e2, service names, one shortcut, session slots.                      *)
(***************************************************************************)
EXTENDS Integers, Sequences, FiniteSets, TLC

CONSTANTS Users, SvcNames, Eids, Shortcuts, MaxSess, WithFaults

Slots   == 1..MaxSess
Pws     == {"p1", "e"}        \* "e" is the empty password: a legal value of the password field
\* "L" is a password longer than the 72 bytes bcrypt can hash: the server refuses to store it (500);
\* "L2" agrees with L on the first 72 bytes and differs after them: it is never anybody's password
PutPws   == Pws \cup {"keep", "L"}
LoginPws == Pws \cup {"L2"}
\* what an AuthnRequest may name as its Issuer: an entity ID, or (a confusion the registry must not
\* fall for - it is keyed by service name, requests are resolved by entity ID) the NAME of a service
Issuers  == Eids \cup { "n:" \o n : n \in SvcNames }
Cookies == {"none", "forged"} \cup { "k" \o ToString(k) : k \in Slots }
SlotOf(ck) == CHOOSE k \in Slots : ck = "k" \o ToString(k)
IsSlot(ck) == \E k \in Slots : ck = "k" \o ToString(k)

NoUser == [pw |-> "absent", ver |-> 0]
NoSess == [user |-> "", ver |-> 0, age |-> 0]
NoReply == [status |-> 0, kind |-> "none", user |-> "", ver |-> 0, aud |-> "", cookie |-> 0]

VARIABLES users,      \* [Users -> [pw, ver]]
          services,   \* [SvcNames -> "" | eid]          stored services
          registry,   \* [SvcNames -> "" | eid]          in-memory registry, by service name
          shortcuts,  \* [Shortcuts -> "" | eid]
          sessions,   \* [Slots -> [user, ver, age]]
          act, reply
vars == <<users, services, registry, shortcuts, sessions, act, reply>>
View == [users |-> users, services |-> services, registry |-> registry, shortcuts |-> shortcuts, sessions |-> sessions]

Init == /\ users = [u \in Users |-> NoUser]
        /\ services = [n \in SvcNames |-> ""]
        /\ registry = [n \in SvcNames |-> ""]
        /\ shortcuts = [c \in Shortcuts |-> ""]
        /\ sessions = [k \in Slots |-> NoSess]
        /\ act = [n |-> "Init"] /\ reply = NoReply

Registered(e) == \E n \in SvcNames : registry[n] = e
Stored(e)     == \E n \in SvcNames : services[n] = e
Live(k)       == sessions[k].user # "" /\ sessions[k].age < 3
FreeSlots     == { k \in Slots : sessions[k].user = "" }
CredsOK(u, pw) == users[u].pw = pw            \* pw \in Pws, so "none"/"absent" never match

R(status, kind) == [NoReply EXCEPT !.status = status, !.kind = kind]
Assertion(user, ver, aud) == [NoReply EXCEPT !.status = 200, !.kind = "assertion", !.user = user, !.ver = ver, !.aud = aud]

\* session a request is entitled to through its cookie (GetSession, cookie branch)
CookieSession(ck) == IF IsSlot(ck) /\ Live(SlotOf(ck)) THEN SlotOf(ck) ELSE 0

Unch(S) == UNCHANGED S

(****************************** management *********************************)
PutUser(u, pw, ver) ==
  /\ act' = [n |-> "PutUser", u |-> u, pw |-> pw, ver |-> ver]
  /\ IF pw = "L"
       THEN reply' = R(500, "error") /\ Unch(users)          \* bcrypt: password too long; nothing is stored
       ELSE /\ users' = [users EXCEPT ![u] = [pw |-> IF pw = "keep" THEN (IF users[u].pw = "absent" THEN "none" ELSE users[u].pw) ELSE pw,
                                               ver |-> ver]]
            /\ reply' = R(204, "empty")
  /\ Unch(<<services, registry, shortcuts, sessions>>)
DeleteUser(u) ==
  /\ users' = [users EXCEPT ![u] = NoUser]
  /\ act' = [n |-> "DeleteUser", u |-> u] /\ reply' = R(204, "empty")
  /\ Unch(<<services, registry, shortcuts, sessions>>)
GetUser(u) ==
  /\ act' = [n |-> "GetUser", u |-> u]
  /\ reply' = IF users[u].pw = "absent" THEN R(500, "error") ELSE [R(200, "json") EXCEPT !.user = u, !.ver = users[u].ver]
  /\ Unch(<<users, services, registry, shortcuts, sessions>>)
\* PUT/POST /services/{n}: the stored service and the registry entry of that NAME are replaced together
PutService(n, e) ==
  /\ services' = [services EXCEPT ![n] = e] /\ registry' = [registry EXCEPT ![n] = e]
  /\ act' = [n |-> "PutService", svc |-> n, e |-> e] /\ reply' = R(204, "empty")
  /\ Unch(<<users, shortcuts, sessions>>)
DeleteService(n) ==
  /\ act' = [n |-> "DeleteService", svc |-> n]
  /\ IF services[n] = "" THEN reply' = R(500, "error") /\ Unch(<<services, registry>>)
     ELSE /\ services' = [services EXCEPT ![n] = ""] /\ registry' = [registry EXCEPT ![n] = ""]
          /\ reply' = R(204, "empty")
  /\ Unch(<<users, shortcuts, sessions>>)
GetService(n) ==
  /\ act' = [n |-> "GetService", svc |-> n]
  /\ reply' = IF services[n] = "" THEN R(500, "error") ELSE [R(200, "xml") EXCEPT !.aud = services[n]]
  /\ Unch(<<users, services, registry, shortcuts, sessions>>)
PutShortcut(c, e) ==
  /\ shortcuts' = [shortcuts EXCEPT ![c] = e]
  /\ act' = [n |-> "PutShortcut", c |-> c, e |-> e] /\ reply' = R(204, "empty")
  /\ Unch(<<users, services, registry, sessions>>)
DeleteShortcut(c) ==
  /\ shortcuts' = [shortcuts EXCEPT ![c] = ""]
  /\ act' = [n |-> "DeleteShortcut", c |-> c] /\ reply' = R(204, "empty")
  /\ Unch(<<users, services, registry, sessions>>)
DeleteSession(k) ==
  /\ sessions[k].user # ""
  /\ sessions' = [sessions EXCEPT ![k] = NoSess]
  /\ act' = [n |-> "DeleteSession", k |-> k] /\ reply' = R(204, "empty")
  /\ Unch(<<users, services, registry, shortcuts>>)
List(what) ==
  /\ act' = [n |-> "List", what |-> what] /\ reply' = R(200, "json")
  /\ Unch(<<users, services, registry, shortcuts, sessions>>)

(************************* authentication and SSO **************************)
NewSession(u) == LET k == CHOOSE x \in FreeSlots : \A y \in FreeSlots : x <= y
                 IN [slot |-> k, s |-> [user |-> u, ver |-> users[u].ver, age |-> 0]]

\* POST /login with credentials
Login(u, pw) ==
  /\ act' = [n |-> "Login", u |-> u, pw |-> pw]
  /\ IF CredsOK(u, pw)
       THEN /\ FreeSlots # {}
            /\ LET ns == NewSession(u) IN
                 /\ sessions' = [sessions EXCEPT ![ns.slot] = ns.s]
                 /\ reply' = [R(200, "json") EXCEPT !.user = u, !.ver = users[u].ver, !.cookie = ns.slot]
       ELSE reply' = R(200, "loginform") /\ Unch(sessions)
  /\ Unch(<<users, services, registry, shortcuts>>)
\* GET /login with a cookie only
LoginCookie(ck) ==
  /\ act' = [n |-> "LoginCookie", ck |-> ck]
  /\ LET k == CookieSession(ck) IN
       reply' = IF k = 0 THEN R(200, "loginform")
                ELSE [R(200, "json") EXCEPT !.user = sessions[k].user, !.ver = sessions[k].ver]
  /\ Unch(<<users, services, registry, shortcuts, sessions>>)
\* GET /sso with an AuthnRequest issued by the SP with entity ID e, cookie ck
SSO(e, ck) ==
  /\ act' = [n |-> "SSO", e |-> e, ck |-> ck]
  /\ LET k == CookieSession(ck) IN
       reply' = IF ~Registered(e) THEN R(400, "error")
                ELSE IF k = 0 THEN R(200, "loginform")
                ELSE Assertion(sessions[k].user, sessions[k].ver, e)
  /\ Unch(<<users, services, registry, shortcuts, sessions>>)
\* POST /sso with the request and credentials (the login form posts back here)
SSOLogin(e, u, pw) ==
  /\ act' = [n |-> "SSOLogin", e |-> e, u |-> u, pw |-> pw]
  /\ IF ~Registered(e) THEN reply' = R(400, "error") /\ Unch(sessions)
     ELSE IF CredsOK(u, pw)
       THEN /\ FreeSlots # {}
            /\ LET ns == NewSession(u) IN
                 /\ sessions' = [sessions EXCEPT ![ns.slot] = ns.s]
                 /\ reply' = [Assertion(u, users[u].ver, e) EXCEPT !.cookie = ns.slot]
       ELSE reply' = R(200, "loginform") /\ Unch(sessions)
  /\ Unch(<<users, services, registry, shortcuts>>)
\* GET /login/{c}: IdP-initiated launch
Shortcut(c, ck) ==
  /\ act' = [n |-> "Shortcut", c |-> c, ck |-> ck]
  /\ LET k == CookieSession(ck) IN
       reply' = IF shortcuts[c] = "" THEN R(500, "error")
                ELSE IF k = 0 THEN R(200, "loginform")
                ELSE IF ~Registered(shortcuts[c]) THEN R(404, "error")
                ELSE Assertion(sessions[k].user, sessions[k].ver, shortcuts[c])
  /\ Unch(<<users, services, registry, shortcuts, sessions>>)

(************************ clock, restart, store faults **********************)
Tick == /\ \E k \in Slots : Live(k)
        /\ sessions' = [k \in Slots |-> IF sessions[k].user # "" /\ sessions[k].age < 3
                                          THEN [sessions[k] EXCEPT !.age = @ + 1] ELSE sessions[k]]
        /\ act' = [n |-> "Tick"] /\ reply' = NoReply
        /\ Unch(<<users, services, registry, shortcuts>>)
\* a new server over the same store: the registry is rebuilt from the stored services
Restart == /\ registry' = services
           /\ act' = [n |-> "Restart"] /\ reply' = NoReply
           /\ Unch(<<users, services, shortcuts, sessions>>)

Request ==
  \/ \E u \in Users, pw \in PutPws, v \in {1, 2} : PutUser(u, pw, v)
  \/ \E u \in Users : DeleteUser(u) \/ GetUser(u)
  \/ \E n \in SvcNames, e \in Eids : PutService(n, e)
  \/ \E n \in SvcNames : DeleteService(n) \/ GetService(n)
  \/ \E c \in Shortcuts, e \in Eids : PutShortcut(c, e)
  \/ \E c \in Shortcuts : DeleteShortcut(c)
  \/ \E k \in Slots : DeleteSession(k)
  \/ \E w \in {"users", "services", "shortcuts", "sessions"} : List(w)
  \/ \E u \in Users, pw \in LoginPws : Login(u, pw)
  \/ \E ck \in Cookies : LoginCookie(ck)
  \/ \E e \in Issuers, ck \in Cookies : SSO(e, ck)
  \/ \E e \in Issuers, u \in Users, pw \in LoginPws : SSOLogin(e, u, pw)
  \/ \E c \in Shortcuts, ck \in Cookies : Shortcut(c, ck)

\* "the n-th store operation of this request fails" (not-found or I/O error).  A handler
\* whose store operation fails answers with an error or a login form and has had no
\* effect (every route performs its single write last); if the failing position lies
\* beyond the handler's last operation the request is an ordinary Request.  The harness
\* derives the fault variants of every emitted edge and checks exactly this.
ActShapes ==
  { [n |-> "PutUser", u |-> u, pw |-> pw, ver |-> v] : u \in Users, pw \in PutPws, v \in {1, 2} }
  \cup { [n |-> "GetUser", u |-> u] : u \in Users }
  \cup { [n |-> "PutService", svc |-> x, e |-> e] : x \in SvcNames, e \in Eids }
  \cup { [n |-> "DeleteService", svc |-> x] : x \in SvcNames }
  \cup { [n |-> "Login", u |-> u, pw |-> pw] : u \in Users, pw \in LoginPws }
  \cup { [n |-> "LoginCookie", ck |-> ck] : ck \in Cookies }
  \cup { [n |-> "SSO", e |-> e, ck |-> ck] : e \in Issuers, ck \in Cookies }
  \cup { [n |-> "SSOLogin", e |-> e, u |-> u, pw |-> pw] : e \in Issuers, u \in Users, pw \in LoginPws }
  \cup { [n |-> "Shortcut", c |-> c, ck |-> ck] : c \in Shortcuts, ck \in Cookies }
FailedRequest ==
  /\ WithFaults
  /\ \E a \in ActShapes, r \in {R(500, "error"), R(200, "loginform"), R(400, "error"), R(404, "error")} :
       act' = [n |-> "Failed", of |-> a] /\ reply' = r
  /\ Unch(<<users, services, registry, shortcuts, sessions>>)

Next == Request \/ Tick \/ Restart \/ FailedRequest
Spec == Init /\ [][Next]_vars

(******************************* properties ********************************)
IsAssertion(r) == r.kind = "assertion"
\* who a request has authenticated as, judged on the state BEFORE the request
AuthByCookie(a) == "ck" \in DOMAIN a /\ CookieSession(a.ck) # 0
AuthByCreds(a)  == "pw" \in DOMAIN a /\ "u" \in DOMAIN a /\ a.n \in {"Login", "SSOLogin"} /\ CredsOK(a.u, a.pw)

AssertionOnlyIfAuthenticated ==
  [][ IsAssertion(reply') =>
        \/ AuthByCookie(act') /\ reply'.user = sessions[CookieSession(act'.ck)].user
        \/ AuthByCreds(act') /\ reply'.user = act'.u ]_vars
OnlyToRegisteredNow ==
  [][ IsAssertion(reply') => Stored(reply'.aud) ]_vars
DescribesUserAsAtLogin ==
  [][ IsAssertion(reply') =>
        \/ AuthByCookie(act') /\ reply'.ver = sessions[CookieSession(act'.ck)].ver
        \/ AuthByCreds(act') /\ reply'.ver = users[act'.u].ver ]_vars
SessionOnlyByPassword ==
  [][ reply'.cookie # 0 => AuthByCreds(act') ]_vars
ExactlyOneReply ==
  [][ act'.n \notin {"Tick", "Restart"} => reply'.status \in {200, 204, 400, 404, 500} ]_vars
\* the registry is always the image of the stored services: a restart is unobservable
RegistryIsImageOfStore == registry = services
RestartUnobservable == [][ act'.n = "Restart" => View' = View ]_vars

=============================================================================
