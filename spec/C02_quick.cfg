CONSTANTS
  Settings <- QuickSettings
  Family = "ABCD"
INIT Init
NEXT Next
INVARIANTS
  OnlyInsideWindows
  RejectsOutside
  AcceptsInside
  ExactlyOneVerdict
  Emit
CHECK_DEADLOCK FALSE
