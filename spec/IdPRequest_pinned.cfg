CONSTANTS
  Tier = "q"
  Guarded = FALSE
INIT Init
NEXT Next
INVARIANTS
  Total
  RejectsBad
  AcceptsGood
  SelectedIsRegistered
  SelectionRule
  OnlyValid
  Emit
CHECK_DEADLOCK FALSE
