\* The named deviation CounterCountsElements is on (the parser's nesting counter is not restored when a
\* nested element is done): TLC must REFUTE the fixed point of a wide EntitiesDescriptor value (the check
\* breaks when it does not).
CONSTANTS
  Tier = "q"
  PointerReceiverMarshaller <- NoDeviation
  NestingBound = 1000
  CounterCountsElements = TRUE
  Families <- EsdFamily
INIT Init
NEXT Next
INVARIANTS
  EsdFixedPoint
CHECK_DEADLOCK FALSE
