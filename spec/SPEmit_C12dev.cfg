\* The seeded deviation AcsLookupStopsAtFirst is on (the IdP requires the FIRST registered endpoint with the request's
\* AssertionConsumerServiceURL to have the requested ProtocolBinding): TLC must REFUTE IdpFindsAcs - the SP's own
\* metadata lists its ACS URL for HTTP-POST first and for HTTP-Artifact second, so a request asking for the response
\* over HTTP-Artifact finds no assertion consumer service (the check breaks when TLC does not refute it).
CONSTANTS
  Family = "C12dev"
  IdBytes = 20
  MaxSeq = 6
  Seeded = {"AcsLookupStopsAtFirst"}
INIT Init
NEXT Next
INVARIANTS
  IdpFindsAcs
CHECK_DEADLOCK FALSE
