\* the required design: the DigestMethod field belongs to the call.  Three decryptions in flight, every assignment of the
\* seven good ciphertexts, every interleaving.
CONSTANTS
  Calls = {1, 2, 3}
  SharedDecrypterState = FALSE
INIT Init
NEXT Next
INVARIANTS
  TypeOK
  EachDecrypts
  RegistryUntouched
CHECK_DEADLOCK FALSE
