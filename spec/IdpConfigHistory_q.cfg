CONSTANTS
  MaxLen = 2
INIT Init
NEXT Next
INVARIANTS
  HistoryFree
  Emit
CHECK_DEADLOCK FALSE
