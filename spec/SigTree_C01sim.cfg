CONSTANTS
  K = 4
  MaxNodes = 12
  BaseSet <- AllBases
  RunCfgSeq <- RunsThorough
  Prods <- TreeProds
  KISet <- KIClassic
  EnvWhereSet <- EnvWheres
  SibSeqSet <- SibCover
  Deviations = {}
  EmitMin = 3
  EmitFrom = 3
  EmitMod = 8
INIT Init
NEXT Next
INVARIANTS
  AllProps
CHECK_DEADLOCK FALSE
