CONSTANTS
  MaxLen = 4
INIT Init
NEXT Next
INVARIANTS
  OnlyCurrentTrust
  CurrentTrustSuffices
  HistoryIndependent
  Emit
CHECK_DEADLOCK FALSE
