CONSTANTS
  MaxLen = 4
INIT Init
NEXT Next
INVARIANTS
  OnlyCurrentTrust
  CurrentTrustSuffices
  TamperedNeverAccepted
  HistoryIndependent
  Emit
CHECK_DEADLOCK FALSE
