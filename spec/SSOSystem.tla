------------------------------ MODULE SSOSystem ------------------------------
(***************************************************************************)
(* Layer 3 - composition: one browser, the bundled IdP server (samlidp)    *)
(* and two independent SP deployments (samlsp middleware) that exchanged   *)
(* their real metadata, with the network in the hands of an attacker who   *)
(* may deliver, replay and misdirect messages (a response issued for one   *)
(* SP posted to the other, a request served without an IdP session, ...).  *)
(*                                                                         *)
(* It composes abstractions of Middleware.tla (flows, tracking cookie,     *)
(* session) and IdpServer.tla (registry, IdP session) and states the       *)
(* end-to-end reading of C03 / C07 / C17 / C19: an SP session exists only  *)
(* for a user the IdP authenticated, through a response the IdP issued for *)
(* THAT SP in answer to a flow THAT browser started there; and a faithful  *)
(* run of the protocol does establish it.                                  *)
(* Every transition is executed on the real servers (harness/sso_test.go). *)
(***************************************************************************)
EXTENDS Integers, Sequences, FiniteSets, TLC, Json

CONSTANTS SPs, MaxResps

VARIABLES reg,       \* SPs whose metadata is registered at the IdP
          idpSess,   \* the browser holds a valid IdP session cookie
          flow,      \* [SPs -> "none" | "pending" | "done"]
          reqs,      \* AuthnRequests in flight (by issuing SP); can be served any number of times
          resps,     \* responses in flight: the SP each was issued for
          spSess,    \* [SPs -> BOOLEAN] the browser holds a session at that SP
          everAuth,  \* history: the IdP has authenticated the user at some point
          act, reply
vars == <<reg, idpSess, flow, reqs, resps, spSess, everAuth, act, reply>>
View == [reg |-> reg, idpSess |-> idpSess, flow |-> flow, reqs |-> reqs, resps |-> resps, spSess |-> spSess]

Init == /\ reg = {} /\ idpSess = FALSE /\ flow = [s \in SPs |-> "none"] /\ reqs = {} /\ resps = {}
        /\ spSess = [s \in SPs |-> FALSE] /\ everAuth = FALSE
        /\ act = [n |-> "Init"] /\ reply = "none"

Register(s)   == /\ s \notin reg /\ reg' = reg \cup {s}
                 /\ act' = [n |-> "Register", s |-> s] /\ reply' = "204"
                 /\ UNCHANGED <<idpSess, flow, reqs, resps, spSess, everAuth>>
Unregister(s) == /\ s \in reg /\ reg' = reg \ {s}
                 /\ act' = [n |-> "Unregister", s |-> s] /\ reply' = "204"
                 /\ UNCHANGED <<idpSess, flow, reqs, resps, spSess, everAuth>>
IdPLogin      == /\ ~idpSess /\ idpSess' = TRUE /\ everAuth' = TRUE
                 /\ act' = [n |-> "IdPLogin"] /\ reply' = "session"
                 /\ UNCHANGED <<reg, flow, reqs, resps, spSess>>
IdPLogout     == /\ idpSess /\ idpSess' = FALSE
                 /\ act' = [n |-> "IdPLogout"] /\ reply' = "204"
                 /\ UNCHANGED <<reg, flow, reqs, resps, spSess, everAuth>>
\* the browser asks SP s for a protected page without a session there
Start(s)      == /\ flow[s] = "none"
                 /\ flow' = [flow EXCEPT ![s] = "pending"] /\ reqs' = reqs \cup {s}
                 /\ act' = [n |-> "Start", s |-> s] /\ reply' = "redirect"
                 /\ UNCHANGED <<reg, idpSess, resps, spSess, everAuth>>
\* the AuthnRequest of SP s reaches the IdP's /sso, with the browser's IdP cookie if it has one
Serve(s)      == /\ s \in reqs
                 /\ act' = [n |-> "Serve", s |-> s]
                 /\ IF s \notin reg THEN reply' = "400" /\ UNCHANGED resps
                    ELSE IF ~idpSess THEN reply' = "loginform" /\ UNCHANGED resps
                    ELSE /\ Cardinality(resps) < MaxResps \/ s \in resps
                         /\ reply' = "response" /\ resps' = resps \cup {s}
                 /\ UNCHANGED <<reg, idpSess, flow, reqs, spSess, everAuth>>
\* a response issued for SP r is posted to the ACS of SP to, with to's own cookie jar
Deliver(r, to) == /\ r \in resps
                  /\ act' = [n |-> "Deliver", r |-> r, to |-> to]
                  /\ IF r = to /\ flow[to] = "pending"
                       THEN /\ reply' = "session" /\ spSess' = [spSess EXCEPT ![to] = TRUE]
                            /\ flow' = [flow EXCEPT ![to] = "done"]
                       ELSE reply' = "403" /\ UNCHANGED <<spSess, flow>>
                  /\ UNCHANGED <<reg, idpSess, reqs, resps, everAuth>>

Next == \/ \E s \in SPs : Register(s) \/ Unregister(s) \/ Start(s) \/ Serve(s)
        \/ IdPLogin \/ IdPLogout
        \/ \E r \in SPs, to \in SPs : Deliver(r, to)
Spec == Init /\ [][Next]_vars

(******************************* properties ********************************)
\* an SP session only for a user the IdP authenticated ...
SessionImpliesAuthenticated == \A s \in SPs : spSess[s] => everAuth
\* ... through a response issued for that very SP, answering a flow started there
SessionOnlyThroughOwnResponse ==
  [][ \A s \in SPs : spSess'[s] /\ ~spSess[s] =>
        act'.n = "Deliver" /\ act'.to = s /\ act'.r = s /\ flow[s] = "pending" ]_vars
\* the IdP issues responses only to an authenticated browser and only for registered SPs
ResponsesOnlyWhenEntitled ==
  [][ resps' # resps => act'.n = "Serve" /\ idpSess /\ act'.s \in reg ]_vars
\* the faithful protocol run works: registered SP, IdP session, own pending flow
FaithfulRunCompletes ==
  [][ act'.n = "Deliver" /\ act'.r = act'.to /\ flow[act'.to] = "pending" => reply' = "session" ]_vars

EmitEdge == [][ PrintT(<<"EDGE", ToJson([from |-> View, act |-> act', reply |-> reply', to |-> View'])>>) ]_vars
=============================================================================
