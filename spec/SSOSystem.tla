------------------------------ MODULE SSOSystem ------------------------------
(***************************************************************************)
(* TLC wrapper of SSOSystemCore.tla (which holds the model and its         *)
(* properties, free of TLC-only modules so that TLAPS can read it): adds   *)
(* the emission of every transition for the harness.                       *)
(***************************************************************************)
EXTENDS SSOSystemCore, TLC, Json

EmitEdge == [][ PrintT(<<"EDGE", ToJson([from |-> View, act |-> act', reply |-> reply', to |-> View'])>>) ]_vars
=============================================================================
