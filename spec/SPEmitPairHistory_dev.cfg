\* The seeded deviation SharedPolicyPointer is on (NameIDPolicy.AllowCreate of every AuthnRequest points at one
\* package-level variable): TLC must REFUTE EmissionsOfAVerify - make A (POST, signed), make B, write through
\* B.NameIDPolicy.AllowCreate, emit A with Post() (the check breaks when TLC does not refute it).
CONSTANTS
  MaxLen = 2
  CrossKinds = FALSE
  Seeded = {"SharedPolicyPointer"}
INIT Init
NEXT Next
INVARIANTS
  EmissionsOfAVerify
CHECK_DEADLOCK FALSE
