\* Not a registered phase.  EntitiesDescriptor.UnmarshalXML deleting the per-decoder count when an
\* element is finished: TLC refutes NoPanic with a ladder-shaped document deeper than the stack
\* has room for (fixes/C09b.md).
CONSTANTS
  Tier = "q"
  Unguarded = {}
  Unwrapped = {}
  DepthRestore = "wipe"
  ContextDropped = FALSE
  CloseFailure = "logged"
INIT Init
NEXT Next
INVARIANTS
  NoPanic
CHECK_DEADLOCK TRUE
