------------------------- MODULE IdpRegistryHistory -------------------------
(***************************************************************************)
(* C05 over the life of ONE identity provider (the bundled server and the  *)
(* saml.IdentityProvider inside it): services are registered, re-registered*)
(* with changed metadata (the assertion consumer service moves: version 1  *)
(* -> 2) and removed BETWEEN authentication requests.  "Known to the       *)
(* provider registry" and "listed in that registered provider's metadata"  *)
(* are about the registry as it is when the request arrives - never about  *)
(* what an earlier request saw (metadata remembered per issuer).           *)
(*                                                                         *)
(* IdpRegistry.tla executes every single transition from a freshly built   *)
(* source state; here every HISTORY of up to MaxLen steps is emitted and   *)
(* replayed on one server value (harness/c05_registry_history_test.go).    *)
(***************************************************************************)
EXTENDS Integers, Sequences, FiniteSets, TLC, Json

CONSTANTS NameSeq,   \* the service names in ascending (string) order
          Eids, Vers, MaxLen

Names == { NameSeq[k] : k \in DOMAIN NameSeq }

None == [e |-> "", v |-> 0]
VARIABLES reg, hist
vars == <<reg, hist>>

Init == reg = [n \in Names |-> None] /\ hist = <<>>

Holders(i) == { n \in Names : reg[n].e = i }
\* several services may share an entity ID: the code resolves it to the one with the smallest name
First(i)   == NameSeq[CHOOSE k \in DOMAIN NameSeq : reg[NameSeq[k]].e = i /\ \A j \in 1..(k - 1) : reg[NameSeq[j]].e # i]
Put(n, e, v) == /\ reg' = [reg EXCEPT ![n] = [e |-> e, v |-> v]]
                /\ hist' = Append(hist, [n |-> "Put", name |-> n, e |-> e, v |-> v, k |-> "204", cur |-> {}])
Delete(n)    == /\ reg[n] # None
                /\ reg' = [reg EXCEPT ![n] = None]
                /\ hist' = Append(hist, [n |-> "Delete", name |-> n, e |-> "", v |-> 0, k |-> "204", cur |-> {}])
\* an authenticated request of issuer i that asks for the assertion consumer service of version v of i's metadata.
\* cur: the versions of i's metadata registered NOW (under any name); the statement allows a response only to one of them
SSO(i, v)    == /\ hist' = Append(hist, [n |-> "SSO", name |-> "", e |-> i, v |-> v,
                                         k |-> IF Holders(i) # {} /\ reg[First(i)].v = v THEN "response" ELSE "rejected",
                                         cur |-> { reg[n].v : n \in Holders(i) }])
                /\ UNCHANGED reg

Next == /\ Len(hist) < MaxLen
        /\ \/ \E n \in Names, e \in Eids, v \in Vers : Put(n, e, v)
           \/ \E n \in Names : Delete(n)
           \/ \E i \in Eids, v \in Vers : SSO(i, v)
Spec == Init /\ [][Next]_vars

(******************************** properties *******************************)
\* a response is predicted only for an issuer registered at that moment and only to an endpoint of metadata
\* registered at that moment
OnlyCurrent == \A k \in DOMAIN hist : hist[k].n = "SSO" /\ hist[k].k = "response" => hist[k].v \in hist[k].cur
\* a history is worth replaying when a request follows a change that follows a request
Interesting == /\ Len(hist) = MaxLen
               /\ hist[MaxLen].n = "SSO"
               /\ \E a \in 1..MaxLen, b \in 1..MaxLen : a < b /\ hist[a].n = "SSO" /\ hist[b].n # "SSO"
TwoNames == <<"svc-a", "svc-b">>    \* cfg: NameSeq <- TwoNames
Emit == Interesting => PrintT(<<"RHIST", ToJson([steps |-> hist])>>)
=============================================================================
