CONSTANTS
  MaxLen = 3
INIT Init
NEXT Next
INVARIANTS
  OnlyCurrentTrust
  CurrentTrustSuffices
  TamperedNeverAccepted
  HistoryIndependent
  Emit
CHECK_DEADLOCK FALSE
