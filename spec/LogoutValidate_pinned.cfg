\* Not a registered phase.  The step machine with the two unguarded dereferences of the
\* pinned tree: TLC refutes Total (and RejectsBad) - the design-level counterexamples
\* that the harness reproduces on the real code (fixes/C18.md).
CONSTANTS
  Tier = "q"
  Unguarded = {"RootNil", "IssuerNil"}
  EveryRoleTrusted = FALSE
INIT Init
NEXT Next
INVARIANTS
  Total
CHECK_DEADLOCK FALSE
