\* As SPEmit_C13dev.cfg, for the refusal clause: with HandsConfiguredBinding on TLC must REFUTE RefusesMismatch (a method
\* that does not fit the key is not refused on the middleware path; an unsigned request is emitted instead).  Run by hand
\* (fixes/C13f.md); the registered check runs SPEmit_C13dev.cfg.
CONSTANTS
  Family = "C13dev"
  IdBytes = 20
  MaxSeq = 6
  Seeded = {"HandsConfiguredBinding"}
INIT Init
NEXT Next
INVARIANTS
  RefusesMismatch
CHECK_DEADLOCK FALSE
