--------------------------- MODULE IdpReqLifeInd ---------------------------
(***************************************************************************)
(* Unbounded companion of IdpReqLife.tla (Apalache, inductive invariant):  *)
(* TLC explores every history of up to MaxCalls calls; this shows that the *)
(* C08 clause "nothing cached or emitted is in clear for an SP that        *)
(* advertises an encryption key" holds after ANY number of calls.          *)
(*   apalache-mc check --init=IndInit --next=Next --inv=IndInv --length=1  *)
(*   apalache-mc check --init=Init    --next=Next --inv=IndInv --length=0  *)
(* The state is IdpReqLife's without the history; `lastOut` / `lastContent`*)
(* are what the last call returned.  The action definitions are copied     *)
(* from IdpReqLife.tla (MkA / MkR / Post) - keep them in step.             *)
(***************************************************************************)
EXTENDS Integers

VARIABLES
  \* @type: Bool;
  enc,
  \* @type: Str;
  bind,
  \* @type: Str;
  aEl,
  \* @type: Str;
  rEl,
  \* @type: Str;
  lastOut,
  \* @type: Str;
  lastContent

Els == {"nil", "plain", "enc"}

Init == /\ enc \in BOOLEAN /\ bind \in {"post", "artifact"}
        /\ aEl = "nil" /\ rEl = "nil" /\ lastOut = "none" /\ lastContent = "none"

\* @type: (Bool) => <<Bool, Str>>;
MkA(f) == IF enc THEN (IF f THEN <<FALSE, aEl>> ELSE <<TRUE, "enc">>) ELSE <<TRUE, "plain">>
\* @type: (Bool) => { ok: Bool, a: Str, r: Str };
MkR(f) == LET a == IF aEl = "nil" THEN MkA(f) ELSE <<TRUE, aEl>>
          IN IF a[1] THEN [ok |-> TRUE, a |-> a[2], r |-> a[2]] ELSE [ok |-> FALSE, a |-> aEl, r |-> rEl]
\* @type: (Bool) => { out: Str, a: Str, r: Str, content: Str };
Post(f) == LET m == IF rEl = "nil" THEN MkR(f) ELSE [ok |-> TRUE, a |-> aEl, r |-> rEl]
           IN IF ~m.ok THEN [out |-> "err", a |-> m.a, r |-> m.r, content |-> "none"]
              ELSE IF bind # "post" THEN [out |-> "err", a |-> m.a, r |-> m.r, content |-> "none"]
              ELSE [out |-> "form", a |-> m.a, r |-> m.r, content |-> m.r]

CallMakeAssertionEl(f) ==
  LET a == MkA(f) IN
  /\ aEl' = a[2] /\ rEl' = rEl /\ lastOut' = (IF a[1] THEN "ok" ELSE "err") /\ lastContent' = "none"
CallMakeResponse(f) ==
  LET m == MkR(f) IN
  /\ aEl' = m.a /\ rEl' = m.r /\ lastOut' = (IF m.ok THEN "ok" ELSE "err") /\ lastContent' = "none"
CallPost(f) ==
  LET p == Post(f) IN
  /\ aEl' = p.a /\ rEl' = p.r /\ lastOut' = p.out /\ lastContent' = p.content

Next == /\ \E f \in BOOLEAN : (f => enc) /\ (CallMakeAssertionEl(f) \/ CallMakeResponse(f) \/ CallPost(f))
        /\ UNCHANGED <<enc, bind>>

TypeOK == /\ enc \in BOOLEAN /\ bind \in {"post", "artifact"} /\ aEl \in Els /\ rEl \in Els
          /\ lastOut \in {"none", "ok", "err", "form"} /\ lastContent \in {"none", "plain", "enc"}
NoClearCache == enc => aEl # "plain" /\ rEl # "plain"
NeverInClear == lastOut = "form" /\ enc => lastContent = "enc"
FormOnlyToPost == lastOut = "form" => bind = "post"
\* what is cached for the response is what is cached for the assertion
Coherent == rEl # "nil" => rEl = aEl

\* ... and of the kind the SP's metadata calls for
Kinded == ~enc => aEl # "enc" /\ rEl # "enc"

IndInv  == TypeOK /\ NoClearCache /\ Kinded /\ NeverInClear /\ FormOnlyToPost /\ Coherent
IndInit == IndInv
=============================================================================
