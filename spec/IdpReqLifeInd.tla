--------------------------- MODULE IdpReqLifeInd ---------------------------
(***************************************************************************)
(* Unbounded companion of IdpReqLife.tla (Apalache, inductive invariant):  *)
(* TLC explores every history of up to MaxCalls calls; this shows that the *)
(* C08 clause "nothing cached or emitted is in clear for an SP that        *)
(* advertises an encryption key" and the coherence of the two cached       *)
(* elements hold after ANY number of calls, whatever faults (random source *)
(* of the encryption step, first / second signature of a call) hit them.   *)
(*   apalache-mc check --init=IndInit --next=Next --inv=IndInv --length=1  *)
(*   apalache-mc check --init=Init    --next=Next --inv=IndInv --length=0  *)
(* The state is IdpReqLife's without the history; `lastOut` / `lastContent`*)
(* are what the last call returned.  The action definitions are copied     *)
(* from IdpReqLife.tla (MkA / MkR / Post) - keep them in step.             *)
(***************************************************************************)
EXTENDS Integers

VARIABLES
  \* @type: Bool;
  enc,
  \* @type: Str;
  bind,
  \* @type: Str;
  aEl,
  \* @type: Str;
  rEl,
  \* @type: Str;
  lastOut,
  \* @type: Str;
  lastContent

Els    == {"nil", "plain", "enc"}
Faults == {"none", "enc", "sig1", "sig2"}

Init == /\ enc \in BOOLEAN /\ bind \in {"post", "artifact"}
        /\ aEl = "nil" /\ rEl = "nil" /\ lastOut = "none" /\ lastContent = "none"

\* @type: (Str) => { ok: Bool, a: Str };
MkA(F) == IF F = "sig1" THEN [ok |-> FALSE, a |-> aEl]
          ELSE IF enc THEN (IF F = "enc" THEN [ok |-> FALSE, a |-> aEl] ELSE [ok |-> TRUE, a |-> "enc"])
          ELSE [ok |-> TRUE, a |-> "plain"]
\* @type: (Str) => { ok: Bool, a: Str, r: Str };
MkR(F) == IF aEl = "nil"
            THEN LET x == MkA(F) IN
                 IF ~x.ok THEN [ok |-> FALSE, a |-> aEl, r |-> rEl]
                 ELSE IF F = "sig2" THEN [ok |-> FALSE, a |-> x.a, r |-> rEl]
                 ELSE [ok |-> TRUE, a |-> x.a, r |-> x.a]
            ELSE IF F = "sig1" THEN [ok |-> FALSE, a |-> aEl, r |-> rEl]
                 ELSE [ok |-> TRUE, a |-> aEl, r |-> aEl]
\* @type: (Str) => { out: Str, a: Str, r: Str, content: Str };
Post(F) == LET m == IF rEl = "nil" THEN MkR(F) ELSE [ok |-> TRUE, a |-> aEl, r |-> rEl]
           IN IF ~m.ok THEN [out |-> "err", a |-> m.a, r |-> m.r, content |-> "none"]
              ELSE IF bind # "post" THEN [out |-> "err", a |-> m.a, r |-> m.r, content |-> "none"]
              ELSE [out |-> "form", a |-> m.a, r |-> m.r, content |-> m.r]

CallMakeAssertionEl(F) ==
  LET a == MkA(F) IN
  /\ aEl' = a.a /\ rEl' = rEl /\ lastOut' = (IF a.ok THEN "ok" ELSE "err") /\ lastContent' = "none"
CallMakeResponse(F) ==
  LET m == MkR(F) IN
  /\ aEl' = m.a /\ rEl' = m.r /\ lastOut' = (IF m.ok THEN "ok" ELSE "err") /\ lastContent' = "none"
CallPost(F) ==
  LET p == Post(F) IN
  /\ aEl' = p.a /\ rEl' = p.r /\ lastOut' = p.out /\ lastContent' = p.content

Next == /\ \E F \in Faults : (F = "enc" => enc) /\ (CallMakeAssertionEl(F) \/ CallMakeResponse(F) \/ CallPost(F))
        /\ UNCHANGED <<enc, bind>>

TypeOK == /\ enc \in BOOLEAN /\ bind \in {"post", "artifact"} /\ aEl \in Els /\ rEl \in Els
          /\ lastOut \in {"none", "ok", "err", "form"} /\ lastContent \in {"none", "plain", "enc"}
NoClearCache == enc => aEl # "plain" /\ rEl # "plain"
NeverInClear == lastOut = "form" /\ enc => lastContent = "enc"
FormOnlyToPost == lastOut = "form" => bind = "post"
\* what is cached for the response is what is cached for the assertion
Coherent == rEl # "nil" => rEl = aEl

\* ... and of the kind the SP's metadata calls for
Kinded == ~enc => aEl # "enc" /\ rEl # "enc"
\* a form never goes out without an assertion in it
FormHasAssertion == lastOut = "form" => lastContent # "none"

IndInv  == TypeOK /\ NoClearCache /\ Kinded /\ NeverInClear /\ FormOnlyToPost /\ Coherent /\ FormHasAssertion
IndInit == IndInv
=============================================================================
