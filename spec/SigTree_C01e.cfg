CONSTANTS
  K = 1
  MaxNodes = 12
  BaseSet <- ArtBases
  RunCfgSeq <- RunsEnv
  Prods <- EnvProds
  KISet <- KIClassic
  EnvWhereSet <- EnvWheres
  Deviations = {}
  EmitMin = 1
  EmitFrom = 9
  EmitMod = 1
INIT Init
NEXT Next
INVARIANTS
  AllProps
  MustRejectAgrees
  FindSigAgrees
CHECK_DEADLOCK FALSE
