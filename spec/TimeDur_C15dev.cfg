\* The named deviation PointerReceiverMarshaller is on for every type with a value receiver:
\* TLC must REFUTE the round trip (the check breaks when it does not).
CONSTANTS
  Tier = "q"
  PointerReceiverMarshaller <- EveryValueRecvDeviates
  NestingBound = 1000
  CounterCountsElements = FALSE
  Families <- DevFamilies
INIT Init
NEXT Next
INVARIANTS
  SlotsRoundTrip
CHECK_DEADLOCK FALSE
