CONSTANTS
  Family = "C11q"
  Dev <- DevPinned
INIT Init
NEXT Next
INVARIANTS
  TypeOK
  OneOutcome
  RoundTrip
  RegistryClosure
  PrefixAgnostic
  CipherValueLength
  Total
  RejectsMalformed
  BaselineDecrypts
  Emit
CHECK_DEADLOCK FALSE
