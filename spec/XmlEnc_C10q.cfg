CONSTANTS
  Family = "C10q"
  Dev <- DevPinned
INIT Init
NEXT Next
INVARIANTS
  TypeOK
  OneOutcome
  RoundTrip
  RefusesUnwrappable
  RegistryClosure
  PrefixAgnostic
  EveryKey
  DigestByMessage
  FieldsGovern
  AnnouncesConfigured
  WrapsAsAnnounced
  CipherValueLength
  Total
  RejectsMalformed
  BaselineDecrypts
  Emit
CHECK_DEADLOCK FALSE
