CONSTANTS
  Family = "C10q"
  Dev <- DevPinned
INIT Init
NEXT Next
INVARIANTS
  TypeOK
  OneOutcome
  RoundTrip
  RegistryClosure
  PrefixAgnostic
  EveryKey
  DigestByMessage
  FieldsGovern
  AnnouncesConfigured
  WrapsAsAnnounced
  CipherValueLength
  Total
  RejectsMalformed
  BaselineDecrypts
  Emit
CHECK_DEADLOCK FALSE
