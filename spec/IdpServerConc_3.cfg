CONSTANTS
  NProcs = 3
INIT Init
NEXT Next
VIEW View
INVARIANTS
  MutualExclusion
  Emit
CHECK_DEADLOCK FALSE
