---------------------------- MODULE GateHistory ----------------------------
(***************************************************************************)
(* C16 over the life of ONE protected handler value                        *)
(* (RequireAccount(RequireAttribute(name, value)(h))): requests of         *)
(* different browsers pass through it one after the other.  Whether a      *)
(* request is admitted depends on the session IT presents - never on what  *)
(* the same handler served before (a flag, a cache, a context kept across  *)
(* requests).                                                              *)
(*                                                                         *)
(* Request kinds: a valid session whose named attribute carries the        *)
(* required value (among others, in any position), a valid session without *)
(* it, a valid session without the attribute at all, no session cookie, an *)
(* expired session token, a token of another deployment.  Every history of *)
(* up to MaxLen requests is emitted and replayed on one real handler value *)
(* (harness/c16_gate_history_test.go).                                     *)
(***************************************************************************)
EXTENDS Integers, Sequences, TLC, Json

CONSTANT MaxLen

Kinds == {"entitled", "entitled-2nd-value", "other-value", "no-attribute", "no-cookie", "expired", "foreign"}

\* what the statement requires of one request, whatever came before it
Required(k) == CASE k \in {"entitled", "entitled-2nd-value"} -> "served"
                 [] k \in {"other-value", "no-attribute"}    -> "forbidden"
                 [] OTHER                                    -> "no-session"      \* login flow started, handler not run

VARIABLE hist
Init == hist = <<>>
Step(k) == Len(hist) < MaxLen /\ hist' = Append(hist, [k |-> k, req |-> Required(k)])
Next == \E k \in Kinds : Step(k)

HistoryFree == \A i \in DOMAIN hist : hist[i].req = Required(hist[i].k)
\* only histories in which an admitted request precedes one that must not be admitted, or vice versa, exercise anything
Mixed == \E i, j \in DOMAIN hist : i < j /\ hist[i].req # hist[j].req
Emit == (Len(hist) = MaxLen /\ Mixed) => PrintT(<<"GHIST", ToJson([steps |-> hist])>>)
=============================================================================
