---------------------------- MODULE GateHistory ----------------------------
(***************************************************************************)
(* C16 over the life of ONE protected handler value                        *)
(* (RequireAccount(RequireAttribute(name, value)(h))): requests of         *)
(* different browsers pass through it one after the other.  Whether a      *)
(* request is admitted depends on the session IT presents - never on what  *)
(* the same handler served before (a flag, a cache, a context kept across  *)
(* requests).                                                              *)
(*                                                                         *)
(* Request kinds: a valid session whose named attribute carries the        *)
(* required value (among others, in any position), a valid session without *)
(* it, a valid session without the attribute at all, no session cookie, an *)
(* expired session token, a token of another deployment - and valid        *)
(* sessions whose named attribute carries a NEAR MISS of the required      *)
(* value: the same letters in another case, a Unicode look-alike that      *)
(* simple case folding maps onto it (LATIN SMALL LETTER LONG S for s), a   *)
(* proper prefix.  "Carries the required value" is equality of strings:    *)
(* only the class exact does.  Every history of                            *)
(* up to MaxLen requests is emitted and replayed on one real handler value *)
(* (harness/c16_gate_history_test.go).                                     *)
(***************************************************************************)
EXTENDS Integers, Sequences, TLC, Json

CONSTANT MaxLen

Kinds == {"entitled", "entitled-2nd-value", "other-value", "no-attribute", "no-cookie", "expired", "foreign",
          "value-other-case", "value-fold-lookalike", "value-prefix"}

\* how the values of the named attribute in the request's session relate to the required value:
\* exact (one of them IS the required string) | otherCase (differs in letter case only) | foldLookalike (differs
\* only by characters that Unicode simple case folding identifies) | prefix (a proper prefix of it) | other |
\* absent (no attribute of that name) | noSession
ValueClass(k) == CASE k \in {"entitled", "entitled-2nd-value"} -> "exact"
                   [] k = "value-other-case"     -> "otherCase"
                   [] k = "value-fold-lookalike" -> "foldLookalike"
                   [] k = "value-prefix"         -> "prefix"
                   [] k = "other-value"          -> "other"
                   [] k = "no-attribute"         -> "absent"
                   [] OTHER                      -> "noSession"
ValueClasses == {"exact", "otherCase", "foldLookalike", "prefix", "other", "absent", "noSession"}
\* "only when the named attribute carries the required value"
CarriesRequired(vc) == vc = "exact"

\* what the statement requires of one request, whatever came before it
Required(k) == CASE CarriesRequired(ValueClass(k)) -> "served"
                 [] ValueClass(k) = "noSession"    -> "no-session"      \* login flow started, handler not run
                 [] OTHER                          -> "forbidden"

VARIABLE hist
Init == hist = <<>>
Step(k) == Len(hist) < MaxLen /\ hist' = Append(hist, [k |-> k, vc |-> ValueClass(k), req |-> Required(k)])
Next == \E k \in Kinds : Step(k)

HistoryFree == \A i \in DOMAIN hist : hist[i].req = Required(hist[i].k)
\* every value class is a kind's, and only exact is served
OnlyExactServed == /\ ValueClasses = { ValueClass(k) : k \in Kinds }
                   /\ \A i \in DOMAIN hist : hist[i].req = "served" <=> hist[i].vc = "exact"
\* only histories in which an admitted request precedes one that must not be admitted, or vice versa, exercise anything
Mixed == \E i, j \in DOMAIN hist : i < j /\ hist[i].req # hist[j].req
Emit == (Len(hist) = MaxLen /\ Mixed) => PrintT(<<"GHIST", ToJson([steps |-> hist])>>)
=============================================================================
