CONSTANTS
  Tier = "q"
  Guarded = TRUE
INIT Init
NEXT Next
INVARIANTS
  RejectsBad
  AcceptsGood
  SelectedIsRegistered
  SelectionRule
  OnlyValid
  Total
  Emit
CHECK_DEADLOCK FALSE
