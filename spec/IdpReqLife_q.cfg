CONSTANTS
  MaxFaults = 3
  MaxCalls = 3
INIT Init
NEXT Next
INVARIANTS
  NeverInClear
  NoClearCache
  FormOnlyToPost
  Coherent
  Emit
PROPERTIES
  FailedCallIsNoop
CHECK_DEADLOCK FALSE
