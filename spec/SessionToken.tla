---------------------------- MODULE SessionToken ----------------------------
(***************************************************************************)
(* C16 - which cookies authenticate a request to the samlsp middleware,    *)
(* and what the application then sees.                                     *)
(*                                                                         *)
(* Part "token".  A token is an abstract record (below); the two decode    *)
(* machines mirror, one action per check and in the code's order,          *)
(*   CookieSessionProvider.GetSession -> JWTSessionCodec.Decode            *)
(*        (session_cookie.go:92-105, session_jwt.go:91-113)                *)
(*   CookieRequestTracker.GetTrackedRequests -> JWTTrackedRequestCodec.    *)
(*        Decode (request_tracker_cookie.go:76-95, request_tracker_jwt.go) *)
(* both on top of golang-jwt v4 Parser.ParseWithClaims (parser.go:56-118,  *)
(* ParseUnverified :126-179):                                              *)
(*   cookie by name -> exactly three segments -> header base64/JSON ->     *)
(*   claims base64/JSON into the codec's claims struct -> alg registered   *)
(*   -> alg in ValidMethods -> signature under Key.Public() -> exp/iat/nbf *)
(*   against jwt.TimeFunc (no leeway) -> audience -> issuer -> marker      *)
(*   claim (-> cookie-name suffix = sub, tracker only),                    *)
(* followed by Middleware.RequireAccount (middleware.go:115-131).          *)
(* Time is whole seconds relative to now (= 0): StandardClaims.Valid       *)
(* compares TimeFunc().Unix() with the integer claims.                     *)
(*                                                                         *)
(* Part "map".  JWTSessionCodec.New (session_jwt.go:34-71): assertion ->   *)
(* times, subject and attribute claims, then RequireAttribute              *)
(* (middleware.go:235-254) over the claims.                                *)
(*                                                                         *)
(* Part "life".  The same mint machine on assertions in which the IdP      *)
(* states ends of its own (AuthnStatement/@SessionNotOnOrAfter,            *)
(* Conditions/@NotOnOrAfter, SubjectConfirmationData/@NotOnOrAfter, each   *)
(* before the mint, inside the codec lifetime or beyond it), the token     *)
(* then coming back at clock positions around the end of the lifetime and  *)
(* around the IdP's ends.                                                  *)
(*                                                                         *)
(* The mint of parts "map" and "life" is the ACS path: the codec's New     *)
(* (steps Times .. SessionIndex) and then the step of the PROVIDER,         *)
(* CookieSessionProvider.CreateSession (session_cookie.go:31-62): Encode   *)
(* the claims as New made them, Set-Cookie with the provider's own MaxAge. *)
(* A deployment has TWO durations: JWTSessionCodec.MaxAge (cfg.life, the   *)
(* session lifetime the statement speaks of) and CookieSessionProvider.    *)
(* MaxAge (cfg.cookieSecs, how long the browser is asked to keep the       *)
(* cookie) - equal in samlsp.New's defaults, separate settings for anyone  *)
(* who builds the provider by hand.                                        *)
(*                                                                         *)
(* A deployment also has a URL (Options.URL, cfg.url): samlsp.New derives   *)
(* from it the audience and issuer of both codecs (step NewCodecs; module  *)
(* SessionTokenUrl).  Tokens really minted come from this deployment, from *)
(* a deployment with another key, from one on another origin, and from     *)
(* SIBLINGS - same key, same scheme and host, a URL that differs only in   *)
(* the path, only in the query, only in a trailing slash or only in the    *)
(* letter case of the host.                                                *)
(*                                                                         *)
(* The Properties section is written from the statement of C16 only.       *)
(***************************************************************************)
EXTENDS Integers, Sequences, FiniteSets, TLC, Json, SessionTokenUrl

CONSTANTS Family,            \* "C16q" | "C16t" : which input families Init ranges over
          EnforceMethods,    \* parser.ValidMethods = {configured alg}      (TRUE in the code)
          EnforceSessMarker, \* JWTSessionCodec.Decode checks saml-session        (TRUE)
          EnforceTrkMarker,  \* JWTTrackedRequestCodec.Decode checks saml-authn-request (TRUE)
          SessionEndRule,    \* what JWTSessionCodec.New does with AuthnStatement/@SessionNotOnOrAfter:
                             \* "ignore" (the code) | "min" (an earlier IdP end shortens the session) |
                             \* "max" (a later IdP end lengthens it)
          CookieAgeOverridesExp, \* CookieSessionProvider.CreateSession rewrites the token's exp to
                             \* iat + the PROVIDER's (cookie) MaxAge when that is positive   (FALSE in the code)
          PreflightBypass,   \* Middleware.RequireAccount hands a request shaped like a CORS preflight (method
                             \* OPTIONS + Access-Control-Request-Method) to the wrapped handler without looking
                             \* for a session                                                (FALSE in the code)
          SubjectFromUid     \* JWTSessionCodec.New fills a subject the assertion does not state from the first
                             \* value of the claim named "uid"                              (FALSE in the code)
\* The three switches are TRUE in every registered configuration.  Setting one to
\* FALSE is the design-level counterpart of the code mutants C16 must catch: TLC then
\* reports OnlyMintedSessionTokensAuthenticate (resp. TrackerRefusesSessionTokens) violated.
\* SessionEndRule is "ignore" in every registered configuration (named deviation
\* IgnoresIdPSessionEnd: the code reads none of the IdP-stated ends).  "min" is a stricter
\* implementation the statement permits: every invariant still holds.  "max" is the design-level
\* counterpart of a code change C16 must catch: TLC reports NothingLengthensTheSession violated.
\* AudienceIsUrlRoot (declared in SessionTokenUrl) is FALSE in every registered configuration of this
\* module; TRUE makes TLC report OnlyMintedSessionTokensAuthenticate violated (a sibling's session token).
\* CookieAgeOverridesExp is FALSE in every registered configuration (the provider encodes the claims
\* exactly as the codec's New made them).  TRUE is the named deviation of the same name, the
\* design-level counterpart of a code change C16 must catch ("keep token and cookie in step"): with a
\* cookie MaxAge longer than the codec's, TLC reports NothingLengthensTheSession (part "life") and
\* OnlyMintedSessionTokensAuthenticate (part "token", reason tooOld) violated.
\* PreflightBypass is FALSE in every registered configuration that emits vectors (RequireAccount decides
\* by the session alone, whatever the request's method and headers).  TRUE is the named deviation of the
\* same name, the design-level counterpart of a code change C16 must catch ("let the application answer
\* preflights"): TLC reports OnlyMintedSessionTokensAuthenticate violated (family "shape",
\* SessionToken_C16shape.cfg - a registered refutation phase).

\* SubjectFromUid is FALSE in every registered configuration that emits vectors (the subject is the
\* assertion's NameID value and nothing else).  TRUE is the named deviation of the same name, the
\* design-level counterpart of a code change C16 must catch ("some IdPs release the login name only as
\* an attribute"): TLC reports ExposesExactlyTheAssertion violated (family "subj",
\* SessionToken_C16subj.cfg - a registered refutation phase).

Absent  == -999999999      \* a time claim that is not in the token (StandardClaims: 0 = unset)
Far     == 100000          \* "far" in seconds; larger than every lifetime used
TrkLife == 90              \* saml.MaxIssueDelay, lifetime of tracked-request tokens

VARIABLES part,    \* "token" | "map" | "life"
          cfg,     \* [spkey, life, cookie, cookieAge, cookieSecs, url]
          in,      \* abstract input: token record / assertion record
          pc,      \* <<machine, stage>>
          res,     \* [sess |-> [verdict, step], trk |-> [verdict, step]]
          err,     \* error GetSession returns: "none" | "nil" | "ErrNoSession"
          out,     \* RequireAccount: "none" | "handler" | "flow" | "onerror"
          subj, claims, si, ai, ni,     \* parts "map", "life": JWTSessionCodec.New state
          mt,                           \* ... the token's iat, nbf, exp in seconds after the mint, and
                                        \*     ckMaxAge: the Max-Age attribute of the Set-Cookie that carries it
          ident    \* what samlsp.New derived from the URLs: own = audience / issuer this deployment's codecs
                   \* require, tok = audience / issuer the minting deployment's codec stamped into the token
vars == <<part, cfg, in, pc, res, err, out, subj, claims, si, ai, ni, mt, ident>>

----------------------------------------------------------------------------
(* configurations *)
\* life       = JWTSessionCodec.MaxAge in seconds: THE session lifetime
\* cookieAge  = class of CookieSessionProvider.MaxAge relative to it, cookieSecs = its value in seconds:
\*              equal (samlsp.New's defaults: both one hour) | longer (a persistent cookie around a
\*              short-lived token: lifetime + seven hours, the "beyond" position of part "life") |
\*              shorter (half the lifetime, the "inside" position) | zero (a browser-session cookie:
\*              net/http writes no Max-Age attribute)
BeyondBy == 25200
CookieClasses == {"equal", "longer", "shorter", "zero"}
CookieSecs(a, l) == CASE a = "equal" -> l [] a = "longer" -> l + BeyondBy [] a = "shorter" -> l \div 2 [] a = "zero" -> 0
\* url        = Options.URL (SessionTokenUrl): Bare = https://sp.example.com in all configurations that existed
CfgC(k, l, c, a) == [spkey |-> k, life |-> l, cookie |-> c, cookieAge |-> a, cookieSecs |-> CookieSecs(a, l), url |-> Bare]
Cfg(k, l, c) == CfgC(k, l, c, "equal")
WithCookie(cfgs) == { CfgC(c.spkey, c.life, c.cookie, a) : c \in cfgs, a \in CookieClasses \ {"equal"} }
AllCfgs  == { Cfg(k, l, c) : k \in {"RSA", "ECDSA"}, l \in {3600, 60}, c \in {"default", "custom"} }
DiagCfgs == { Cfg("RSA", 3600, "default"), Cfg("ECDSA", 60, "custom") }
FourCfgs == DiagCfgs \cup { Cfg("RSA", 60, "custom"), Cfg("ECDSA", 3600, "default") }
\* degenerate session lifetimes: a codec configured with a zero, one-second or negative MaxAge
\* still mints an expiry, so its tokens authenticate (almost) never
EdgeCfgs == { Cfg("RSA", 0, "default"), Cfg("ECDSA", 1, "custom"), Cfg("RSA", -60, "custom") }
\* the two durations separated
CookieCfgs == IF Family = "C16q" THEN WithCookie(DiagCfgs) ELSE WithCookie(FourCfgs)
\* deployments that do not sit at the bare origin: a non-root path with a trailing slash, a non-root
\* path without one and with a query, and the explicit root (the one URL that IS its own root)
OwnUrls == { Url("sp", "/wiki/", ""), Url("sp", "/wiki", "t=a"), Url("sp", "/", "") }
WithUrl(cfgs) == { [c EXCEPT !.url = u] : c \in cfgs, u \in OwnUrls }
UrlCfgs == IF Family = "C16q" THEN WithUrl(DiagCfgs) ELSE WithUrl(FourCfgs)

----------------------------------------------------------------------------
(* tokens *)
\*  src      minted  : produced by the real CreateSession / TrackRequest of the deployment "by"
\*                     (key "other" = same URL, other key pair; iss/aud "other" = same key, the minting
\*                     deployment is configured with ANOTHER URL - what its codec then writes into the
\*                     token is the business of step NewCodecs)
\*           crafted : assembled by hand from segments
\*  by       minted only: this | otherKey | otherURL (another origin) | sibPath | sibQuery | sibSlash |
\*           sibCase (siblings: same key, same origin, URL differing in one respect); crafted: none
\*  kind     session | tracking : shape of the claims and which marker is the token's own
\*  alg      configured (RS256 | ES256) | otherHash (RS384 RS512 | ES384 ES512 with the same key)
\*           | pss (PS*) | otherFamily (ES* to an RSA SP, RS* to an ECDSA SP, EdDSA) | none
\*           | hsPem | hsDer (HMAC keyed with the PEM / DER of the public key) | unknown
\*  key      this | other
\*  iss,aud  eq | other | absent ; audform str | arr (JSON string or array of one string)
\*  iat,nbf,exp   seconds relative to now, or Absent
\*  marker   true | false | absent (the kind's own marker claim) | wrongMarker (only the other codec's)
\*  mutation applied to the finished token string
\*  slot     named (cookie carries the configured session-cookie name) | other
\*           | none (family RequestShapes only: the request carries no Cookie header at all)
\*  req      the SHAPE of the request the token is presented in: method and header set
\*           (PlainGet everywhere except in the family RequestShapes)
\*  age      minted only: seconds between mint and presentation
Algs      == {"configured", "otherHash", "pss", "otherFamily", "none", "hsPem", "hsDer", "unknown"}
TimeVals  == {-Far, -1, 0, 1, Far, Absent}
Markers   == {"true", "false", "absent", "wrongMarker"}
SigMuts   == {"sigEdit", "sigB64Tail", "truncSig", "truncEmptySig"}
Mutations == {"none", "headerEdit", "claimsEdit", "truncTwoSeg", "truncMid", "extraSegment", "empty", "garbage"} \cup SigMuts

\* request shapes: the method, and what the request carries besides the cookie - nothing, the headers of a
\* CORS preflight (Access-Control-Request-Method + Origin; together with OPTIONS this IS a preflight, with
\* any other method just two headers), or X-Requested-With (a script's request)
Methods  == {"GET", "HEAD", "POST", "PUT", "DELETE", "OPTIONS"}
HdrSets  == {"none", "preflight", "xrw"}
PlainGet == [method |-> "GET", hdr |-> "none"]
Shapes   == { [method |-> m, hdr |-> h] : m \in Methods, h \in HdrSets }
IsPreflight(r) == r.method = "OPTIONS" /\ r.hdr = "preflight"

Base == [src |-> "crafted", kind |-> "session", alg |-> "configured", key |-> "this",
         iss |-> "eq", aud |-> "eq", audform |-> "str", iat |-> -1, nbf |-> -1, exp |-> Far,
         marker |-> "true", mutation |-> "none", slot |-> "named", age |-> 0, by |-> "none", req |-> PlainGet]

Fields == {"kind", "alg", "key", "iss", "aud", "audform", "iat", "nbf", "exp", "marker", "mutation", "slot"}
FieldDom(f) == CASE f = "kind" -> {"session", "tracking"}
                 [] f = "alg" -> Algs
                 [] f = "key" -> {"this", "other"}
                 [] f \in {"iss", "aud"} -> {"eq", "other", "absent"}
                 [] f = "audform" -> {"str", "arr"}
                 [] f \in {"iat", "nbf", "exp"} -> TimeVals
                 [] f = "marker" -> Markers
                 [] f = "mutation" -> Mutations
                 [] f = "slot" -> {"named", "other"}
Vary(b, f, v) == CASE f = "kind" -> [b EXCEPT !.kind = v]
                   [] f = "alg" -> [b EXCEPT !.alg = v]
                   [] f = "key" -> [b EXCEPT !.key = v]
                   [] f = "iss" -> [b EXCEPT !.iss = v]
                   [] f = "aud" -> [b EXCEPT !.aud = v]
                   [] f = "audform" -> [b EXCEPT !.audform = v]
                   [] f = "iat" -> [b EXCEPT !.iat = v]
                   [] f = "nbf" -> [b EXCEPT !.nbf = v]
                   [] f = "exp" -> [b EXCEPT !.exp = v]
                   [] f = "marker" -> [b EXCEPT !.marker = v]
                   [] f = "mutation" -> [b EXCEPT !.mutation = v]
                   [] f = "slot" -> [b EXCEPT !.slot = v]

\* combinations that have no concrete counterpart
WF(t) == /\ t.alg = "none" => t.mutation \notin SigMuts            \* no signature to edit
         /\ t.mutation = "sigB64Tail" => t.alg = "configured"       \* needs spare bits in the last character
         /\ t.aud = "absent" => t.audform = "str"

Singles(b) == UNION { { Vary(b, f, v) : v \in FieldDom(f) } : f \in Fields }
Pairs(b)   == UNION { UNION { { Vary(Vary(b, f, v), g, w) : v \in FieldDom(f), w \in FieldDom(g) } : g \in Fields \ {f} } : f \in Fields }
Triples(b) == UNION { Singles(p) : p \in Pairs(b) }

\* full products of the primary fields
CoreAlg   == { [Base EXCEPT !.kind = k, !.alg = a, !.key = ky, !.marker = m] :
                 k \in {"session", "tracking"}, a \in Algs, ky \in {"this", "other"}, m \in Markers }
CoreTime  == { [Base EXCEPT !.iat = i, !.nbf = n, !.exp = e] : i \in TimeVals, n \in TimeVals, e \in TimeVals }
CoreScope == { [Base EXCEPT !.kind = k, !.iss = i, !.aud = a, !.audform = f, !.marker = m] :
                 k \in {"session", "tracking"}, i \in {"eq", "other", "absent"}, a \in {"eq", "other", "absent"},
                 f \in {"str", "arr"}, m \in Markers }

\* tokens minted by real code: iat = nbf = mint time, exp = mint time + lifetime
Ages(l) == {-Far, -1, 0, 1, l \div 2, l - 1, l, l + 1, l + Far}
LifeOf(kind, c) == IF kind = "session" THEN c.life ELSE TrkLife
\* what the mint writes into exp, seconds after the mint: the codec's MaxAge (session_jwt.go:40,
\* request_tracker_jwt.go) - under the deviation CookieAgeOverridesExp the session provider's instead
MintExp(kind, c) == IF CookieAgeOverridesExp /\ kind = "session" /\ c.cookieSecs > 0 THEN c.cookieSecs ELSE LifeOf(kind, c)
\* Options.URL of the minting deployment, relative to this deployment's (c.url)
DeplUrl(c, depl) == CASE depl \in {"this", "otherKey"} -> c.url
                      [] depl = "otherURL" -> OtherOrigin(c.url)
                      [] depl \in SibClasses -> Sibling(c.url, depl)
\* iss / aud: is the minting deployment configured with this deployment's URL ("eq") or with another
Minted(kind, c, depl, form, age, life, mut, slot) ==
  [src |-> "minted", kind |-> kind, alg |-> "configured",
   key |-> IF depl = "otherKey" THEN "other" ELSE "this",
   iss |-> IF DeplUrl(c, depl) = c.url THEN "eq" ELSE IF SameDeployment(DeplUrl(c, depl), c.url) THEN "equiv" ELSE "other",
   aud |-> IF DeplUrl(c, depl) = c.url THEN "eq" ELSE IF SameDeployment(DeplUrl(c, depl), c.url) THEN "equiv" ELSE "other",
   audform |-> form, iat |-> -age, nbf |-> -age, exp |-> life - age,
   marker |-> "true", mutation |-> mut, slot |-> slot, age |-> age, by |-> depl, req |-> PlainGet]
KindForms == { <<"session", "str">>, <<"tracking", "arr">>, <<"tracking", "str">> }   \* str: jwt.MarshalSingleStringAsArray = FALSE
KindForms2 == { <<"session", "str">>, <<"tracking", "arr">> }
Depls == {"this", "otherKey", "otherURL"}
\* (the clock positions are those of the configured lifetime, whatever the mint wrote)
AgesFew(l) == {-1, 1, l \div 2, l - 1, l + 1}
MintedBy(c, depls, kfs, A(_)) == UNION { { Minted(kf[1], c, d, kf[2], a, MintExp(kf[1], c), "none", "named") :
                                             d \in depls, a \in A(LifeOf(kf[1], c)) } : kf \in kfs }
MintedPlain(c) == MintedBy(c, Depls, KindForms, Ages)
\* the siblings of a deployment at the bare origin; every minting deployment of one that is not
\* (its own tokens at all nine ages, the others' at five)
MintedSib(c)   == MintedBy(c, SibClasses, KindForms2, AgesFew)
MintedUrl(c)   == MintedBy(c, {"this"}, KindForms2, Ages)
                  \cup MintedBy(c, (Depls \cup SibClasses) \ {"this"}, KindForms2, AgesFew)
MintedMut(c)   == UNION { { Minted(kf[1], c, "this", kf[2], a, MintExp(kf[1], c), m, s) :
                              a \in {1, LifeOf(kf[1], c) + 1}, m \in Mutations, s \in {"named", "other"} } : kf \in KindForms }

\* the request shape as a dimension of a presentation: no cookie at all, a garbage cookie, tokens the
\* statement refuses for one reason each (own session token older than the lifetime, own fresh tracking
\* token, fresh session token of a deployment with another key, of a sibling, a hand-made expired one, one
\* without the session marker) and own fresh session tokens (MustAccept) - each in every shape.  The
\* statement knows no request shape: the wrapped handler runs iff the token is this SP's fresh session token.
ShapeTokens(c) ==
  LET own(a) == Minted("session", c, "this", "str", a, MintExp("session", c), "none", "named")
  IN  { [own(1) EXCEPT !.slot = "none"],
        Minted("session", c, "this", "str", 1, MintExp("session", c), "garbage", "named"),
        own(c.life + 1),
        Minted("tracking", c, "this", "arr", 1, MintExp("tracking", c), "none", "named"),
        Minted("session", c, "otherKey", "str", 1, MintExp("session", c), "none", "named"),
        Minted("session", c, "sibPath", "str", 1, MintExp("session", c), "none", "named"),
        [Base EXCEPT !.exp = -1], [Base EXCEPT !.marker = "absent"],
        own(1), own(c.life \div 2), own(c.life - 1) }
RequestShapes(c) == { [t EXCEPT !.req = r] : t \in ShapeTokens(c), r \in Shapes \ {PlainGet} }
                    \cup { t \in ShapeTokens(c) : t.slot = "none" }     \* (the others in a plain GET exist already)

On(cfgs, toks) == { <<c, t>> : c \in cfgs, t \in { x \in toks : WF(x) } }
OnM(cfgs, F(_)) == UNION { { <<c, t>> : t \in F(c) } : c \in cfgs }

TokCases ==
  CASE Family = "C16q" -> On(FourCfgs, Singles(Base)) \cup On(DiagCfgs, Pairs(Base))
                          \cup On(DiagCfgs, CoreAlg \cup CoreTime \cup CoreScope)
                          \cup OnM(AllCfgs \cup EdgeCfgs \cup CookieCfgs, MintedPlain) \cup OnM(DiagCfgs, MintedMut)
                          \cup OnM(DiagCfgs, MintedSib) \cup OnM(UrlCfgs, MintedUrl)
                          \cup OnM(DiagCfgs, RequestShapes)
    [] Family = "C16t" -> On(AllCfgs, Pairs(Base)) \cup On(DiagCfgs, Triples(Base))
                          \cup On(AllCfgs, CoreAlg \cup CoreTime \cup CoreScope)
                          \cup OnM(AllCfgs \cup EdgeCfgs \cup CookieCfgs, MintedPlain) \cup OnM(AllCfgs, MintedMut)
                          \cup OnM(AllCfgs, MintedSib) \cup OnM(UrlCfgs, MintedUrl)
                          \cup OnM(FourCfgs, RequestShapes)
    \* only the request shapes (the refutation of the deviation PreflightBypass)
    [] Family = "shape" -> OnM(DiagCfgs, RequestShapes)
    [] Family = "subj" -> {}

----------------------------------------------------------------------------
(* assertions (part "map") *)
\* attribute = [fn (FriendlyName, "" = none), name, vals]; names and values are symbols that the
\* harness replaces by concrete strings; "SI" stands for the literal name "SessionIndex", "UID" for
\* the literal name "uid" (N1, N2, F1 are then names other than "uid").
Attr(fn, n, v) == [fn |-> fn, name |-> n, vals |-> v]
ValSeqs == { <<>>, <<"a">>, <<"b", "a">>, <<"a", "a">> }
AttrDom == { Attr(fn, n, v) : fn \in {"", "F1", "N1"}, n \in {"N1", "N2"}, v \in ValSeqs }
AttrDomSmall == { Attr(fn, n, v) : fn \in {"", "F1"}, n \in {"N1", "N2"}, v \in { <<>>, <<"a">>, <<"b", "a">> } }
Assn(subject, stmts, authn) == [subject |-> subject, stmts |-> stmts, authn |-> authn]

StmtsUpTo2 == { <<>>, << <<>> >> } \cup { << <<x>> >> : x \in AttrDom } \cup { << <<>>, <<x>> >> : x \in AttrDom }
              \cup { << <<x, y>> >> : x \in AttrDom, y \in AttrDom } \cup { << <<x>>, <<y>> >> : x \in AttrDom, y \in AttrDom }
Stmts3 == { << <<x, y>>, <<z>> >> : x \in AttrDomSmall, y \in AttrDomSmall, z \in AttrDomSmall }
          \cup { << <<x>>, <<y>>, <<z>> >> : x \in AttrDomSmall, y \in AttrDomSmall, z \in AttrDomSmall }
          \cup { << <<x, y, z>> >> : x \in AttrDomSmall, y \in AttrDomSmall, z \in AttrDomSmall }
SubjAuthn == { Assn(s, st, au) : s \in {"nameid", "noNameID", "noSubject"},
                 st \in { <<>>, << <<Attr("", "N1", <<"a">>)>> >>, << <<Attr("", "SI", <<"a">>)>> >>, << <<Attr("SI", "N1", <<"b">>)>> >> },
                 au \in { <<>>, <<"s1">>, <<"s1", "s2">>, <<"">> } }

\* The SUBJECT dimension crossed with what the attributes say about a login name.  subject:
\*   nameid (Subject with a NameID of non-empty value) | noSubject (no Subject element) |
\*   noNameID (Subject without NameID) | emptyNameID (Subject whose NameID has the value "").
\* attribute sets: none; none named uid; uid by FriendlyName, one- / two- / no-valued; uid by Name
\* (no FriendlyName), one- / two-valued; Name uid under another FriendlyName (the claim is then not
\* called uid); uid as the second attribute; uid in the second statement; uid by FriendlyName AND by Name.
UidStmts == { <<>>,
              << <<Attr("", "N1", <<"a">>)>> >>,
              << <<Attr("UID", "N1", <<"a">>)>> >>,
              << <<Attr("UID", "N1", <<"b", "a">>)>> >>,
              << <<Attr("UID", "N1", <<>>)>> >>,
              << <<Attr("", "UID", <<"a">>)>> >>,
              << <<Attr("", "UID", <<"b", "a">>)>> >>,
              << <<Attr("F1", "UID", <<"a">>)>> >>,
              << <<Attr("", "N1", <<"b">>), Attr("UID", "N2", <<"a">>)>> >>,
              << <<Attr("", "N1", <<"b">>)>>, <<Attr("", "UID", <<"a">>)>> >>,
              << <<Attr("UID", "UID", <<"a">>)>> >> }
Subjects == {"nameid", "noSubject", "noNameID", "emptyNameID"}
SubjUid  == { Assn(s, st, <<"s1">>) : s \in Subjects, st \in UidStmts }

MapInputs == CASE Family = "C16q" -> { Assn("nameid", st, <<"s1">>) : st \in StmtsUpTo2 } \cup SubjAuthn \cup SubjUid
               [] Family = "C16t" -> { Assn("nameid", st, <<"s1">>) : st \in StmtsUpTo2 \cup Stmts3 } \cup SubjAuthn \cup SubjUid
               [] Family = "shape" -> {}
               \* only the subject dimension (the refutation of the deviation SubjectFromUid)
               [] Family = "subj" -> SubjUid
MapCases == { <<c, a>> : c \in DiagCfgs, a \in MapInputs }

Keys == {"F1", "N1", "N2", "SI", "UID"}

----------------------------------------------------------------------------
(* assertions with IdP-stated ends (part "life") *)
\* An end is given by its position relative to the mint time (0) and the codec lifetime l:
\*   none | before (five minutes before the mint) | inside (half the lifetime) | beyond (seven hours
\*   past mint + lifetime)
\* authn : SessionIndex of each AuthnStatement ("" = attribute absent), sna : its SessionNotOnOrAfter
\* cond  : Conditions/@NotOnOrAfter,  scd : SubjectConfirmationData/@NotOnOrAfter
\* age   : seconds between the mint and the presentation of the token
EndPos   == {"none", "before", "inside", "beyond"}
EndAt(p, l) == CASE p = "before" -> -300 [] p = "inside" -> l \div 2 [] p = "beyond" -> l + BeyondBy [] OTHER -> Absent
LifeAssn(authn, sna, cond, scd, age) ==
  [subject |-> "nameid", stmts |-> << <<Attr("", "N1", <<"a">>)>> >>, authn |-> authn, sna |-> sna,
   cond |-> cond, scd |-> scd, age |-> age]
\* clock positions around the mint, around the inside end, around mint + lifetime, around the beyond end
LifeAges(l) == {-1, 0, 1, (l \div 2) - 1, l \div 2, (l \div 2) + 1, l - 1, l, l + 1, l + (BeyondBy \div 2),
                l + BeyondBy - 1, l + BeyondBy, l + BeyondBy + 1, l + BeyondBy + Far}
\* 0..2 AuthnStatements, each with or without SessionIndex, SessionNotOnOrAfter in every position
AuthnSeqs == { <<<<>>, <<>>>> } \cup { << <<i>>, <<e>> >> : i \in {"s1", ""}, e \in EndPos }
             \cup { << <<i, j>>, <<e, f>> >> : i \in {"s1", ""}, j \in {"s2", ""}, e \in EndPos, f \in EndPos }
AuthnFew  == { <<<<>>, <<>>>>, << <<"s1">>, <<"none">> >>, << <<"s1">>, <<"beyond">> >>, << <<"">>, <<"inside">> >>,
               << <<"s1", "s2">>, <<"before", "beyond">> >> }
\* every AuthnStatement layout without other ends, a few layouts with every combination of the
\* Conditions and SubjectConfirmationData ends; C16t: the full product under the diagonal configurations
\* configurations whose cookie MaxAge differs from the lifetime: the few layouts, without other ends
\* and with both other ends beyond; C16t: the C16q selection of the equal class under the diagonal ones
DiagBase(c) == Cfg(c.spkey, c.life, c.cookie) \in DiagCfgs
LifeSelEq(full, a, cd, sc) == IF full THEN TRUE
                              ELSE IF cd = "none" /\ sc = "none" THEN TRUE ELSE a \in AuthnFew
LifeSel(c, a, cd, sc) == IF c.cookieAge = "equal" THEN LifeSelEq(Family = "C16t" /\ c \in DiagCfgs, a, cd, sc)
                         ELSE IF Family = "C16t" /\ DiagBase(c) THEN LifeSelEq(FALSE, a, cd, sc)
                         ELSE a \in AuthnFew /\ << cd, sc >> \in { <<"none", "none">>, <<"beyond", "beyond">> }
LifeCfgs == IF Family \in {"shape", "subj"} THEN {} ELSE (IF Family = "C16q" THEN DiagCfgs ELSE FourCfgs) \cup CookieCfgs

----------------------------------------------------------------------------
Init == /\ \/ /\ part = "token" /\ (\E p \in TokCases : cfg = p[1] /\ in = p[2])
              /\ pc = <<"new", "Codecs">>
           \/ /\ part = "map" /\ (\E p \in MapCases : cfg = p[1] /\ in = p[2])
              /\ pc = <<"map", "Times">>
           \/ /\ part = "life" /\ pc = <<"map", "Times">>
              /\ \E c \in LifeCfgs, a \in AuthnSeqs, cd \in EndPos, sc \in EndPos :
                    /\ LifeSel(c, a, cd, sc)
                    /\ \E g \in LifeAges(c.life) : cfg = c /\ in = LifeAssn(a[1], a[2], cd, sc, g)
        /\ res = [sess |-> [verdict |-> "none", step |-> "none"], trk |-> [verdict |-> "none", step |-> "none"]]
        /\ err = "none" /\ out = "none"
        /\ subj = "" /\ claims = [k \in Keys |-> <<>>] /\ si = 1 /\ ai = 1 /\ ni = 1
        /\ mt = [iat |-> Absent, nbf |-> Absent, exp |-> Absent, ckMaxAge |-> Absent]
        /\ ident = [own |-> NoUrl, tok |-> NoUrl]

(************************ samlsp.New: the two codecs ***********************)
\* new.go:53-60 DefaultSessionCodec, :84-92 DefaultTrackedRequestCodec: Audience = Issuer =
\* opts.URL.String() (DeriveAudience; named deviation AudienceIsUrlRoot) - for the deployment the token
\* is presented to, and for the deployment that minted it (a token assembled by hand has no such
\* deployment: its iss / aud classes say how its strings relate to ident.own)
NewCodecs == /\ pc = <<"new", "Codecs">>
             /\ ident' = [own |-> DeriveAudience(cfg.url),
                          tok |-> IF in.src = "minted" THEN DeriveAudience(DeplUrl(cfg, in.by)) ELSE NoUrl]
             /\ pc' = <<"sess", "Cookie">>
             /\ UNCHANGED <<part, cfg, in, res, err, out, subj, claims, si, ai, ni, mt>>

(********************** the decode machines, step by step *****************)
\* which marker claims the token carries
OwnMark(t)   == IF t.marker = "wrongMarker" THEN "absent" ELSE t.marker
OtherMark(t) == IF t.marker = "wrongMarker" THEN "true" ELSE "absent"
SessMark(t)  == IF t.kind = "session" THEN OwnMark(t) ELSE OtherMark(t)      \* "saml-session"
TrkMark(t)   == IF t.kind = "tracking" THEN OwnMark(t) ELSE OtherMark(t)     \* "saml-authn-request"

\* number of '.'-separated parts of the presented string
Segs(t) == CASE t.mutation = "truncTwoSeg" -> 2
             [] t.mutation \in {"truncMid", "empty"} -> 1
             [] t.mutation = "extraSegment" -> 4
             [] OTHER -> 3

\* the harness presents a token to the tracker under NamePrefix + the token's own sub
CookiePresent(c) == IF c = "sess" THEN in.slot = "named" ELSE TRUE

\* JWTSessionClaims embeds StandardClaims (aud is a Go string: a JSON array does not decode);
\* JWTTrackedRequestClaims embeds RegisteredClaims (aud is ClaimStrings: both forms decode)
ClaimsDecode(c) == IF c = "sess" THEN in.aud = "absent" \/ in.audform = "str" ELSE TRUE

\* Method.Verify with Key.Public(): RSA and RSA-PSS methods want *rsa.PublicKey, ECDSA methods
\* *ecdsa.PublicKey (any hash: ES384/ES512 verify under a P-256 key when r,s are padded);
\* HMAC wants []byte and "none" wants the magic constant, so both fail on the key type.
\* Named deviation AcceptNonCanonicalBase64: DecodeSegment is not strict, so spare bits of the
\* last signature character are ignored (mutation sigB64Tail leaves the signature bytes unchanged).
SigOK == /\ in.mutation \in {"none", "sigB64Tail"}
         /\ in.key = "this"
         /\ CASE in.alg \in {"configured", "otherHash"} -> TRUE
              [] in.alg = "pss" -> cfg.spkey = "RSA"
              [] OTHER -> FALSE

\* StandardClaims.Valid / RegisteredClaims.Valid: now < exp, now >= iat, now >= nbf; unset passes
TimesOK == /\ in.exp = Absent \/ 0 < in.exp
           /\ in.iat = Absent \/ 0 >= in.iat
           /\ in.nbf = Absent \/ 0 >= in.nbf

MarkerOK(c) == IF c = "sess" THEN ~EnforceSessMarker \/ SessMark(in) = "true"
                             ELSE ~EnforceTrkMarker \/ TrkMark(in) = "true"

\* VerifyAudience / VerifyIssuer compare the token's string with the codec's, byte by byte
AudOK == IF in.src = "minted" THEN ident.tok = ident.own ELSE in.aud = "eq"
IssOK == IF in.src = "minted" THEN ident.tok = ident.own ELSE in.iss = "eq"

Rest == <<part, cfg, in, err, out, subj, claims, si, ai, ni, mt, ident>>
Check(c, stage, ok, next) ==
  /\ pc = <<c, stage>>
  /\ (IF ok THEN pc' = <<c, next>> /\ UNCHANGED res
            ELSE /\ res' = [res EXCEPT ![c] = [verdict |-> "reject", step |-> stage]]
                 /\ pc' = <<c, "Return">>)
  /\ UNCHANGED Rest

\* session_cookie.go:93 r.Cookie(c.Name) / request_tracker_cookie.go:78-81 name prefix
LookupCookie(c)    == Check(c, "Cookie", CookiePresent(c), "Segments")
\* parser.go:128 splitToken: exactly two delimiters
SplitSegments(c)   == Check(c, "Segments", Segs(in) = 3, "Header")
\* parser.go:137-145 header base64 + JSON
ParseHeader(c)     == Check(c, "Header", in.mutation # "garbage", "Claims")
\* parser.go:151-167 claims base64 + JSON into the codec's struct
ParseClaims(c)     == Check(c, "Claims", ClaimsDecode(c), "AlgLookup")
\* parser.go:170-176 alg is a string naming a registered method
LookupAlg(c)       == Check(c, "AlgLookup", in.alg # "unknown", "AlgAllowed")
\* parser.go:63-76 ValidMethods = [SigningMethod.Alg()]
CheckAlgAllowed(c) == Check(c, "AlgAllowed", ~EnforceMethods \/ in.alg = "configured", "Signature")
\* parser.go:93-96
VerifySignature(c) == Check(c, "Signature", SigOK, "Times")
\* parser.go:101-112 Claims.Valid()
CheckTimes(c)      == Check(c, "Times", TimesOK, "Audience")
\* session_jwt.go:103 / request_tracker_jwt.go:62 VerifyAudience(required)
CheckAudience(c)   == Check(c, "Audience", AudOK, "Issuer")
\* session_jwt.go:106 / request_tracker_jwt.go:65 VerifyIssuer(required)
CheckIssuer(c)     == Check(c, "Issuer", IssOK, "Marker")
\* session_jwt.go:109 / request_tracker_jwt.go:68
CheckMarker(c)     == Check(c, "Marker", MarkerOK(c), IF c = "sess" THEN "Accept" ELSE "Index")
\* request_tracker_cookie.go:87-90 cookie-name suffix = claims.Subject (holds by construction)
CheckIndex         == Check("trk", "Index", TRUE, "Accept")

Accept(c) == /\ pc = <<c, "Accept">>
             /\ res' = [res EXCEPT ![c] = [verdict |-> "accept", step |-> "none"]]
             /\ pc' = <<c, "Return">>
             /\ UNCHANGED Rest

\* session_cookie.go:94-104: no cookie and every Decode error become ErrNoSession
ReturnSession == /\ pc = <<"sess", "Return">>
                 /\ err' = IF res.sess.verdict = "accept" THEN "nil" ELSE "ErrNoSession"
                 /\ pc' = <<"mw", "RequireAccount">>
                 /\ UNCHANGED <<part, cfg, in, res, out, subj, claims, si, ai, ni, mt, ident>>

\* middleware.go:117-129: the session decides, nothing else of the request is looked at (r.Method and the
\* headers other than Cookie are not read: in.req plays no part).
\* Named deviation PreflightBypass (FALSE in the code): a request shaped like a CORS preflight goes to the
\* wrapped handler whatever GetSession would have said (in the changed code: before GetSession is asked).
RequireAccount == /\ pc = <<"mw", "RequireAccount">>
                  /\ out' = IF PreflightBypass /\ IsPreflight(in.req) THEN "handler"
                            ELSE IF res.sess.verdict = "accept" THEN "handler"
                            ELSE IF err = "ErrNoSession" THEN "flow" ELSE "onerror"
                  /\ pc' = <<"trk", "Cookie">>
                  /\ UNCHANGED <<part, cfg, in, res, err, subj, claims, si, ai, ni, mt, ident>>

ReturnTracker == /\ pc = <<"trk", "Return">>
                 /\ pc' = <<"done", "">>
                 /\ UNCHANGED <<part, cfg, in, res, err, out, subj, claims, si, ai, ni, mt, ident>>

(*********************** JWTSessionCodec.New, step by step ****************)
KeyOf(a) == IF a.fn # "" THEN a.fn ELSE a.name          \* session_jwt.go:54-57

\* :35-42 now := saml.TimeNow(); Audience = c.Audience, Issuer = c.Issuer (what samlsp.New derived from the
\* URL); IssuedAt = NotBefore = now, ExpiresAt = now + MaxAge
MintTimes == /\ pc = <<"map", "Times">>
             /\ mt' = [mt EXCEPT !.iat = 0, !.nbf = 0, !.exp = cfg.life]
             /\ ident' = [own |-> DeriveAudience(cfg.url), tok |-> DeriveAudience(cfg.url)]
             /\ pc' = <<"map", "Subject">>
             /\ UNCHANGED <<part, cfg, in, res, err, out, subj, claims, si, ai, ni>>

\* :44-48 subject = NameID value, only when Subject and NameID are present (an empty NameID value gives "")
MapSubject == /\ pc = <<"map", "Subject">>
              /\ subj' = IF in.subject = "nameid" THEN "S" ELSE ""
              /\ pc' = <<"map", "Attr">>
              /\ UNCHANGED <<part, cfg, in, res, err, out, claims, si, ai, ni, mt, ident>>

\* :52-62 statements in order, attributes in order, values appended to the claim named KeyOf.
\* The subject is not touched again: no attribute, whatever its name, becomes the subject.
\* Named deviation SubjectFromUid (FALSE in the code): once the attributes are mapped, a subject that is
\* still "" is filled with Attributes.Get("uid") - the first value of the claim "uid", "" when it has none.
UidFallback(s) == IF SubjectFromUid /\ s = "" /\ claims["UID"] # <<>> THEN claims["UID"][1] ELSE s
MapAttr == /\ pc = <<"map", "Attr">>
           /\ IF si > Len(in.stmts)
                THEN pc' = <<"map", "SessionIndex">> /\ subj' = UidFallback(subj) /\ UNCHANGED <<claims, si, ai>>
                ELSE IF ai > Len(in.stmts[si])
                       THEN si' = si + 1 /\ ai' = 1 /\ UNCHANGED <<claims, pc, subj>>
                       ELSE /\ claims' = [claims EXCEPT ![KeyOf(in.stmts[si][ai])] = @ \o in.stmts[si][ai].vals]
                            /\ ai' = ai + 1 /\ UNCHANGED <<si, pc, subj>>
           /\ UNCHANGED <<part, cfg, in, res, err, out, ni, mt, ident>>

\* :65-68 one SessionIndex value per AuthnStatement, appended to the claim "SessionIndex".
\* Named deviation IgnoresIdPSessionEnd (SessionEndRule = "ignore"): the statement's
\* SessionNotOnOrAfter is not read, and neither are Conditions and SubjectConfirmationData:
\* the token ends at mint + MaxAge whatever the IdP says.
SnaAt(i) == IF part = "life" THEN EndAt(in.sna[i], cfg.life) ELSE Absent
EndRule(exp, e) == CASE e = Absent \/ SessionEndRule = "ignore" -> exp
                     [] SessionEndRule = "min" -> IF e < exp THEN e ELSE exp
                     [] SessionEndRule = "max" -> IF e > exp THEN e ELSE exp
MapSessionIndex == /\ pc = <<"map", "SessionIndex">>
                   /\ IF ni > Len(in.authn)
                        THEN pc' = <<"map", "CreateSession">> /\ UNCHANGED <<claims, ni, mt>>
                        ELSE /\ claims' = [claims EXCEPT !["SI"] = Append(@, in.authn[ni])]
                             /\ mt' = [mt EXCEPT !.exp = EndRule(@, SnaAt(ni))]
                             /\ ni' = ni + 1 /\ UNCHANGED pc
                   /\ UNCHANGED <<part, cfg, in, res, err, out, subj, si, ai, ident>>

\* CookieSessionProvider.CreateSession (session_cookie.go:31-62), the step of the PROVIDER after the
\* codec's New: value := Codec.Encode(session) - the claims go into the token exactly as New made
\* them, the provider's own MaxAge plays no part in the token - and http.SetCookie with
\* MaxAge = int(c.MaxAge.Seconds()), which net/http writes as "Max-Age=n" for n > 0, as "Max-Age=0"
\* for n < 0 and not at all for n = 0 (Absent).
\* Named deviation CookieAgeOverridesExp (FALSE in the code): the provider rewrites exp to
\* iat + its own MaxAge when that is positive, "to keep token and cookie in step".
CookieAttr(x) == IF x > 0 THEN x ELSE IF x < 0 THEN 0 ELSE Absent
ProviderCreateSession ==
  /\ pc = <<"map", "CreateSession">>
  /\ mt' = [mt EXCEPT !.exp = IF CookieAgeOverridesExp /\ cfg.cookieSecs > 0 THEN mt.iat + cfg.cookieSecs ELSE @,
                      !.ckMaxAge = CookieAttr(cfg.cookieSecs)]
  /\ pc' = <<"map", "Present">>
  /\ UNCHANGED <<part, cfg, in, res, err, out, subj, claims, si, ai, ni, ident>>

\* the token is encoded, presented while fresh, decoded: the handler runs with these claims
MapPresent == /\ pc = <<"map", "Present">> /\ part = "map"
              /\ out' = "handler" /\ pc' = <<"done", "">>
              /\ UNCHANGED <<part, cfg, in, res, err, subj, claims, si, ai, ni, mt, ident>>

\* part "life": the token is encoded and comes back, unchanged and in the session cookie of the
\* deployment that minted it, in.age seconds after the mint.  Of the decode machine's checks only
\* Times depends on the clock (StandardClaims.Valid, no leeway: now >= iat, now >= nbf, now < exp);
\* audience and issuer are what this very codec stamped; the others pass by construction.  RequireAccount then runs the handler or starts the flow.
LifePresent == /\ pc = <<"map", "Present">> /\ part = "life"
               /\ out' = IF mt.iat <= in.age /\ mt.nbf <= in.age /\ in.age < mt.exp /\ ident.tok = ident.own
                         THEN "handler" ELSE "flow"
               /\ pc' = <<"done", "">>
               /\ UNCHANGED <<part, cfg, in, res, err, subj, claims, si, ai, ni, mt, ident>>

\* middleware.go:238-250 RequireAttribute(name, value): some value of claims[name] equals value
ClaimAt(n) == IF n \in Keys THEN claims[n] ELSE <<>>
GateAdmit(n, v) == \E i \in DOMAIN ClaimAt(n) : ClaimAt(n)[i] = v
GateNoSession == FALSE                                    \* no session in the context: 403

Next == \/ \E c \in {"sess", "trk"} :
             \/ LookupCookie(c) \/ SplitSegments(c) \/ ParseHeader(c) \/ ParseClaims(c) \/ LookupAlg(c)
             \/ CheckAlgAllowed(c) \/ VerifySignature(c) \/ CheckTimes(c) \/ CheckAudience(c)
             \/ CheckIssuer(c) \/ CheckMarker(c) \/ Accept(c)
        \/ CheckIndex \/ ReturnSession \/ RequireAccount \/ ReturnTracker
        \/ NewCodecs \/ MintTimes \/ MapSubject \/ MapAttr \/ MapSessionIndex \/ ProviderCreateSession \/ MapPresent \/ LifePresent
Spec == Init /\ [][Next]_vars

(************************** Properties (statement) *************************)
Done == pc = <<"done", "">>
Tok  == part = "token"
Ran  == out = "handler"

\* "only if it presents a session token that this SP's session codec issued - same key, issuer
\*  and audience - no longer ago than the session lifetime; anything else ... yields no session"
Why == [otherKey   |-> in.key # "this",                                   \* signed by another key
        otherAlg   |-> in.alg # "configured",                             \* another algorithm
        notSession |-> SessMark(in) # "true",                             \* tracking token / no session marker
        expired    |-> in.exp # Absent /\ in.exp <= -1,                   \* expired by a second or more
        \* this SP's codec issued it longer ago than the configured session lifetime (the codec's
        \* MaxAge), by a second or more - whatever exp the mint wrote into it
        tooOld     |-> in.src = "minted" /\ in.kind = "session" /\ in.age >= cfg.life + 1,
        notYet     |-> in.nbf # Absent /\ in.nbf >= 1,                    \* not yet valid by a second or more
        \* for another audience / issuer: assembled with other strings, or minted by the codec of a
        \* deployment whose Options.URL is not this deployment's (another origin, or a sibling that
        \* differs in path, query, trailing slash or letter case of the host) - whatever either
        \* deployment derives from its URL
        otherAud   |-> in.aud \notin {"eq", "equiv"},      \* ("equiv": the same URL in another spelling - left open)
        otherIss   |-> in.iss \notin {"eq", "equiv"},
        altered    |-> in.mutation \notin {"none", "sigB64Tail"},          \* truncated or altered
        noToken    |-> in.slot = "none"]                                   \* the request presents no cookie at all
MustReject == Tok /\ \E f \in DOMAIN Why : Why[f]
\* a token this deployment's CreateSession returned, presented unchanged in the session cookie
\* strictly inside (iat, exp), boundary seconds excluded.  The cookie's Max-Age is no clause of the
\* statement: a token presented after a SHORTER cookie age has run out (the browser was asked to
\* drop the cookie by then) may or may not authenticate - left open, like an earlier IdP end.
CookieEnds == IF cfg.cookieSecs > 0 /\ cfg.cookieSecs < cfg.life THEN {cfg.cookieSecs} ELSE {}
MustAccept == /\ Tok /\ in.src = "minted" /\ in.kind = "session" /\ in.key = "this"
              /\ in.iss = "eq" /\ in.aud = "eq" /\ in.mutation = "none" /\ in.slot = "named"
              /\ in.iat <= -1 /\ in.exp >= 1
              /\ in.age <= cfg.life - 1 /\ \A e \in CookieEnds : in.age <= e - 1
Class == IF MustReject THEN "MustReject" ELSE IF MustAccept THEN "MustAccept" ELSE "DontCare"

OnlyMintedSessionTokensAuthenticate == Done /\ MustReject => ~Ran
FreshMintedSessionAuthenticates     == Done /\ MustAccept => Ran
\* whatever authenticates is genuine in every respect the statement names
AuthenticatedImpliesGenuine ==
  Done /\ Tok /\ Ran => /\ in.key = "this" /\ in.alg = "configured" /\ SessMark(in) = "true"
                        /\ in.iss = "eq" /\ in.aud = "eq"
                        /\ (in.exp = Absent \/ in.exp > 0) /\ (in.nbf = Absent \/ in.nbf <= 0)
                        /\ in.mutation \in {"none", "sigB64Tail"}
\* "yields no session": the request is sent into the auth flow, never to the error handler
NoSessionStartsFlow == Done /\ Tok /\ ~Ran => out = "flow"
ExactlyOneOutcome   == Done => out \in {"handler", "flow"} /\ (Tok => res.sess.verdict \in {"accept", "reject"} /\ res.trk.verdict \in {"accept", "reject"})
\* the converse direction of "tracking tokens yield no session" (not a clause of C16; design check)
TrackerRefusesSessionTokens == Done /\ Tok /\ TrkMark(in) # "true" => res.trk.verdict = "reject"

\* "The subject and attributes exposed to the application are exactly those of the assertion"
RECURSIVE FlatOf(_), Cat(_)
FlatOf(ss) == IF ss = <<>> THEN <<>> ELSE Head(ss) \o FlatOf(Tail(ss))
Cat(as)    == IF as = <<>> THEN <<>> ELSE Head(as).vals \o Cat(Tail(as))
Flat == FlatOf(in.stmts)
Named(k) == SelectSeq(Flat, LAMBDA a : KeyOf(a) = k)
ExpectedVals(k) == Cat(Named(k)) \o (IF k = "SI" THEN in.authn ELSE <<>>)
\* the subject of the assertion is the value of its NameID - "S" (a non-empty string the harness
\* chooses) when it states one, "" when it has no Subject, no NameID or an empty one - WHATEVER the
\* attributes hold: an attribute is an attribute of the session, never its subject
AssertedSubject == IF in.subject = "nameid" THEN "S" ELSE ""
ExposesExactlyTheAssertion ==
  Done /\ part = "map" => /\ Ran /\ \A k \in Keys : claims[k] = ExpectedVals(k)
                          /\ subj = AssertedSubject
\* "no longer ago than the session lifetime": the session ends, at the latest, one lifetime after
\* this SP's codec issued the token.  The session lifetime is the one configured for the session
\* codec (JWTSessionCodec.MaxAge = cfg.life), whatever Max-Age the cookie provider gives the cookie
\* (cfg.cookieSecs): a cookie kept longer than the lifetime carries a dead token.  The IdP may state
\* ends of its own in the assertion, and the cookie may be given a shorter age; an implementation may
\* or may not let an EARLIER one of these shorten the session (the statement does not say), but
\* nothing in the assertion or in the cookie settings can lengthen it.
Life == part = "life"
Min(S) == CHOOSE x \in S : \A y \in S : x <= y
IdPEnds == ({ EndAt(in.sna[i], cfg.life) : i \in DOMAIN in.sna }
            \cup { EndAt(in.cond, cfg.life), EndAt(in.scd, cfg.life) }) \ {Absent}
EarliestEnd == Min({cfg.life} \cup IdPEnds \cup CookieEnds)
LifeWhy == [tooOld |-> in.age >= cfg.life + 1,           \* issued longer ago than the lifetime, by a second or more
            notYet |-> in.age <= -1]                     \* presented before it was issued
LifeMustReject == Life /\ (LifeWhy.tooOld \/ LifeWhy.notYet)
\* issued by this SP no longer ago than the lifetime, before every end the IdP stated and before a
\* shorter cookie age has run out
LifeMustAccept == Life /\ in.age >= 1 /\ in.age <= EarliestEnd - 1
LifeClass == IF LifeMustReject THEN "MustReject" ELSE IF LifeMustAccept THEN "MustAccept" ELSE "DontCare"
NothingLengthensTheSession        == Done /\ LifeMustReject => ~Ran
FreshBeforeEveryEndAuthenticates  == Done /\ LifeMustAccept => Ran
LifeExposesExactlyTheAssertion ==
  Done /\ Life /\ Ran => /\ \A k \in Keys : claims[k] = ExpectedVals(k)
                         /\ subj = "S"

\* two differently identified attributes share a claim name, or an attribute is called SessionIndex:
\* "exactly those of the assertion" does not say how they combine
Ambiguous == \/ \E i \in DOMAIN Flat, j \in DOMAIN Flat :
                  KeyOf(Flat[i]) = KeyOf(Flat[j]) /\ (Flat[i].fn # Flat[j].fn \/ Flat[i].name # Flat[j].name)
             \/ \E i \in DOMAIN Flat : KeyOf(Flat[i]) = "SI" \/ Flat[i].name = "SI"
MapClass == IF Ambiguous THEN "DontCare" ELSE "MustExact"

\* "attribute-gated handlers admit a request only when the named attribute carries the required value"
GateNames  == {"F1", "N1", "N2", "SI", "NX"}
GateValues == {"a", "b", "c"}
Range(s) == { s[i] : i \in DOMAIN s }
Carries(n, v) == \/ \E i \in DOMAIN Flat : (Flat[i].fn = n \/ Flat[i].name = n) /\ v \in Range(Flat[i].vals)
                 \/ n = "SI" /\ v \in Range(in.authn)
GateOnlyWithValue == Done /\ part = "map" => /\ \A n \in GateNames, v \in GateValues : GateAdmit(n, v) => Carries(n, v)
                                             /\ ~GateNoSession
Gates == { [name |-> n, value |-> v, admit |-> GateAdmit(n, v),
            class |-> IF Carries(n, v) THEN "DontCare" ELSE "MustReject"] : n \in GateNames, v \in GateValues }

(***************************** vector emission *****************************)
EmitTok == Done /\ Tok => PrintT(<<"VEC", ToJson([prop |-> "C16", cfg |-> cfg, in |-> in, class |-> Class, why |-> Why,
                                                  pred |-> [sess |-> res.sess, out |-> out, trk |-> res.trk],
                                                  \* the minting deployment's URL; what its codec stamps (aud = iss)
                                                  \* and what this deployment's codecs require, per step NewCodecs
                                                  mint |-> [url |-> IF in.src = "minted" THEN DeplUrl(cfg, in.by) ELSE NoUrl,
                                                            aud |-> ident.tok, own |-> ident.own]])>>)
EmitMap == Done /\ part = "map" => PrintT(<<"MAP", ToJson([prop |-> "C16", cfg |-> cfg, in |-> in, class |-> MapClass,
                                                           pred |-> [subj |-> subj, claims |-> claims, gates |-> Gates,
                                                                     exp |-> mt.exp, ckMaxAge |-> mt.ckMaxAge, aud |-> ident.tok,
                                                                     noSessionAdmit |-> GateNoSession]])>>)
EmitLife == Done /\ Life => PrintT(<<"LIFE", ToJson([prop |-> "C16", cfg |-> cfg, in |-> in, class |-> LifeClass, why |-> LifeWhy,
                                                     at |-> [sna |-> [i \in DOMAIN in.sna |-> EndAt(in.sna[i], cfg.life)],
                                                             cond |-> EndAt(in.cond, cfg.life), scd |-> EndAt(in.scd, cfg.life)],
                                                     pred |-> [out |-> out, exp |-> mt.exp, ckMaxAge |-> mt.ckMaxAge, aud |-> ident.tok,
                                                               subj |-> subj, claims |-> claims]])>>)
=============================================================================
