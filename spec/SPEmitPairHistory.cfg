CONSTANTS
  MaxLen = 3
  CrossKinds = FALSE
  Seeded = {}
INIT Init
NEXT Next
INVARIANTS
  EmissionsOfAVerify
  SharedOnlyConfiguration
  OpenOnlyAfterConfigEdit
  Emit
CHECK_DEADLOCK FALSE
