------------------------------ MODULE IdpServer ------------------------------
(***************************************************************************)
(* TLC wrapper of IdpServerCore.tla (the model of the bundled IdP server   *)
(* and its properties, readable by TLAPS): adds the emission of every      *)
(* transition for the harness.  IdpServerProof.tla proves                  *)
(* RegistryIsImageOfStore for arbitrary constants.                         *)
(***************************************************************************)
EXTENDS IdpServerCore, Json

EmitEdge == [][ act'.n # "Failed" => PrintT(<<"EDGE", ToJson([from |-> View, act |-> act', reply |-> reply', to |-> View'])>>) ]_vars
=============================================================================
