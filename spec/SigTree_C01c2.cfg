CONSTANTS
  K = 2
  MaxNodes = 12
  BaseSet <- AllBases
  RunCfgSeq <- RunsCross
  Prods <- KeyProds
  KISet <- KICross
  EnvWhereSet <- EnvWheres
  SibSeqSet <- SibCover
  Deviations = {}
  EmitMin = 2
  EmitFrom = 9
  EmitMod = 1
INIT Init
NEXT Next
INVARIANTS
  AllProps
CHECK_DEADLOCK FALSE
