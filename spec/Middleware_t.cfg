CONSTANTS
  NFlows = 2
  Users = {"alice", "bob"}
  MaxNet = 2
  MaxClock = 2
  MaxHostile = 2
INIT Init
NEXT Next
VIEW View
PROPERTIES
  SessionOnlyForInitiator
  RedirectOnlyToRecorded
  RefusedMeansNoSession
  FaithfulFlowsComplete
  AfterLifetimeRefused
  EmitEdge
CHECK_DEADLOCK FALSE
