\* named deviation SharedDecrypterState: select-digest and use-digest go through the field of the registered value.
\* TLC must REFUTE EachDecrypts (phase conc-shared-state-refuted, on_violation emit; TestC10 breaks without the counterexample).
CONSTANTS
  Calls = {1, 2, 3}
  SharedDecrypterState = TRUE
INIT Init
NEXT Next
INVARIANTS
  TypeOK
  EachDecrypts
CHECK_DEADLOCK FALSE
