---------------------------- MODULE SSOSystemSim ----------------------------
(***************************************************************************)
(* Long random behaviours of SSOSystemCore for the harness to replay on    *)
(* the real servers WITHOUT restoring anything between steps (cookie jars, *)
(* store, registry, messages in flight and the clock accumulate): TLC in   *)
(* simulation mode (-simulate num=N -depth D), a history variable, and one *)
(* JSON line per behaviour when it reaches Depth steps.                    *)
(* The constants are larger than in the exhaustive configuration.          *)
(***************************************************************************)
EXTENDS SSOSystemCore, TLC, Json

CONSTANT Depth
VARIABLE trace
svars == <<vars, trace>>

SInit == Init /\ trace = <<>>
SNext == /\ Len(trace) < Depth
         /\ Next
         /\ trace' = Append(trace, [act |-> act', reply |-> reply', to |-> View'])
EmitBehaviour == Len(trace) = Depth => PrintT(<<"BEH", ToJson([steps |-> trace])>>)
=============================================================================
