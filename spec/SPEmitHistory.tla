--------------------------- MODULE SPEmitHistory ---------------------------
(***************************************************************************)
(* C13, histories on ONE ServiceProvider value: its public fields Key,     *)
(* Certificate and SignatureMethod are reassigned between emissions (key   *)
(* roll-over, method upgrade).  What a message is signed with - or whether *)
(* it is refused - must depend only on the configuration in force when the *)
(* message is made, never on what the same object signed before (e.g. a    *)
(* signing context cached across calls).                                   *)
(* TLC enumerates every sequence of up to MaxLen configurations; each step *)
(* = assign the configuration, then emit one message of every kind.  The   *)
(* harness replays each sequence on a single object and checks every       *)
(* emission exactly like the stateless cases of SPEmit.tla.                *)
(***************************************************************************)
EXTENDS Integers, Sequences, TLC, Json

CONSTANTS MaxLen

Keys    == {"rsa2048", "rsa3072", "ec256"}
Methods == {"rsa-sha256", "rsa-sha1", "ecdsa-sha256"}
Family(x) == IF x \in {"rsa2048", "rsa3072", "rsa-sha256", "rsa-sha1"} THEN "rsa" ELSE "ecdsa"
Cfgs == { [key |-> k, method |-> m] : k \in Keys, m \in Methods }

\* what the statement requires of an emission under configuration c
Required(c) == IF Family(c.key) = Family(c.method)
                 THEN [outcome |-> "signed", by |-> c.key, method |-> c.method]
                 ELSE [outcome |-> "error", by |-> "", method |-> ""]

VARIABLES hist
Init == hist = <<>>
Step(c) == Len(hist) < MaxLen /\ hist' = Append(hist, [cfg |-> c, req |-> Required(c)])
Next == \E c \in Cfgs : Step(c)

\* the requirement of step i is a function of step i's configuration alone
HistoryFree == \A i \in DOMAIN hist : hist[i].req = Required(hist[i].cfg)
\* two consecutive configurations differ in at least one field somewhere (otherwise nothing is exercised)
Interesting == Len(hist) >= 2 /\ \E i \in 1..(Len(hist) - 1) : hist[i].cfg # hist[i + 1].cfg
Emit == (Len(hist) = MaxLen /\ Interesting) => PrintT(<<"HIST", ToJson([steps |-> hist])>>)
=============================================================================
