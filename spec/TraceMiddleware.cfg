CONSTANTS
  NFlows = 3
  Users = {"alice", "bob"}
  MaxNet = 4
  MaxClock = 3
  MaxHostile = 3
INIT TInit
NEXT TNext
CONSTRAINT HighWater
POSTCONDITION Accepted
CHECK_DEADLOCK FALSE
