CONSTANTS
  Settings <- ThoroughSettings
  Family = "ABC"
INIT Init
NEXT Next
INVARIANTS
  OnlyInsideWindows
  RejectsOutside
  AcceptsInside
  ExactlyOneVerdict
  Emit
CHECK_DEADLOCK FALSE
