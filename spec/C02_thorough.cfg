CONSTANTS
  Settings <- ThoroughSettings
  Family = "ABCDE"
INIT Init
NEXT Next
INVARIANTS
  OnlyInsideWindows
  RejectsOutside
  AcceptsInside
  ExactlyOneVerdict
  Emit
CHECK_DEADLOCK FALSE
