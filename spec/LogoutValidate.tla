---------------------------- MODULE LogoutValidate ----------------------------
(***************************************************************************)
(* C18 - validation of a SAML LogoutResponse by the service provider, as a *)
(* step machine with one action per step of service_provider.go            *)
(*   ValidateLogoutResponseRequest   :1626  (query wins over form)         *)
(*   ValidateLogoutResponseForm      :1640  base64 -> xrv -> etree -> root *)
(*   ValidateLogoutResponseRedirect  :1680  base64 -> bounded inflate ->.. *)
(*   validateSignature               :1263  (+ goxmldsig Validate)         *)
(*   unmarshalElement / LogoutResponse.UnmarshalXML                        *)
(*   validateLogoutResponse          :1722  Destination, freshness (WALL   *)
(*                                          clock), Issuer, Status         *)
(*                                                                         *)
(* Abstractions.  Strings are their relation to the expected value (eq /   *)
(* wrong / near-miss / empty / absent).  IssueInstant is a class around    *)
(* the freshness bound now - MaxIssueDelay.  The byte string is a framing  *)
(* class.  The document is a small signature tree: the ID of the root and, *)
(* in document order, every ds:Signature element in its subtree with       *)
(*   where  direct child of the root | deeper                              *)
(*   ref    the ID its Reference points to                                 *)
(*   key    the private key that produced SignatureValue                   *)
(*   ki     the certificate named in KeyInfo (a key name), none, rsakv     *)
(*   over   "root" iff DigestValue is the digest of the present root minus *)
(*          this Signature element, else "other"                           *)
(*   shape  ok | bad (Signature element without SignedInfo/SignatureValue) *)
(*                                                                         *)
(* Named deviations.  The pinned tree dereferences doc.Root() and          *)
(* resp.Issuer without a guard.  Unguarded \subseteq {"RootNil",           *)
(* "IssuerNil"} selects the unguarded behaviour (verdict "panic"); the     *)
(* registered configurations use {} - the design the property demands -    *)
(* and LogoutValidate_pinned.cfg shows TLC refuting Total for the pinned   *)
(* behaviour.                                                              *)
(*                                                                         *)
(* The Properties section is written from the statement of C18 only.       *)
(***************************************************************************)
EXTENDS Integers, Sequences, FiniteSets, TLC, Json

CONSTANTS Tier, Unguarded

PostEntries  == {"form", "req_post", "req_both_f"}
RedirEntries == {"redirect", "req_get", "req_both_q"}
Entries      == PostEntries \cup RedirEntries

FramingCls == {"ok", "empty", "notb64", "garbage", "wrongenc", "bomb", "bombvalid", "truncated",
               "rootless", "text", "unstable", "trailing", "leading"}
RootCls == {"ok", "otherelem", "otherns"}
SigCls  == {"root", "none", "moved", "edit_dest", "edit_iss", "edit_status", "edit_time",
            "wrap_nosig", "wrap_copy", "wrap_sameid", "dup_mm", "dup_ma", "dup_am", "dup_aa",
            "junk", "emptysig"}
KeyCls  == {"idp1", "idp2", "idpenc", "att"}
KiCls   == {"cert", "none", "rsakv", "othercert"}
DestCls == {"eq", "wrong", "case", "slash", "query", "prefix", "suffix", "empty", "absent"}
IssCls  == {"eq", "wrong", "case", "slash", "prefix", "suffix", "empty", "absent"}
StatCls == {"Success", "Requester", "empty", "nocode", "absent"}
\* fresh / edge_fresh: at least a guard band inside the bound; band: within +-5 s of it;
\* edge_stale / stale: at least 30 s outside; future: dated after now
TimeCls == {"fresh", "edge_fresh", "band", "edge_stale", "stale", "future", "absent", "malformed"}

VARIABLES cfg, in, pc, cur, path, doc, sel, cert, verdict, step
vars == <<cfg, in, pc, cur, path, doc, sel, cert, verdict, step>>

----------------------------------------------------------------------------
(* input families *)

Base == [entry |-> "form", framing |-> "ok", root |-> "ok", sig |-> "root", key |-> "idp1", ki |-> "cert",
         dest |-> "eq", iss |-> "eq", status |-> "Success", time |-> "fresh"]

Fields == {"framing", "root", "sig", "key", "ki", "dest", "iss", "status", "time"}
FieldDom(f) == CASE f = "framing" -> FramingCls [] f = "root" -> RootCls [] f = "sig" -> SigCls
                 [] f = "key" -> KeyCls [] f = "ki" -> KiCls [] f = "dest" -> DestCls
                 [] f = "iss" -> IssCls [] f = "status" -> StatCls [] f = "time" -> TimeCls
Vary(b, f, v) == [b EXCEPT ![f] = v]

Singles(b) == UNION { { Vary(b, f, v) : v \in FieldDom(f) } : f \in Fields }
Pairs(b)   == UNION { UNION { { Vary(Vary(b, f, v), g, w) : v \in FieldDom(f), w \in FieldDom(g) } :
                              g \in Fields \ {f} } : f \in Fields }
\* triples over the fields that decide the verdict of a well-framed message
CoreFields == {"sig", "key", "ki", "dest", "iss", "status", "time"}
Triples(b) == UNION { UNION { UNION { { Vary(Vary(Vary(b, f, v), g, w), h, x) :
                                          v \in FieldDom(f) \ {b[f]}, w \in FieldDom(g) \ {b[g]}, x \in FieldDom(h) \ {b[h]} } :
                                      h \in CoreFields \ {f, g} } : g \in CoreFields \ {f} } : f \in CoreFields }

WithEntry(S, E) == { [x EXCEPT !.entry = e] : x \in S, e \in E }
\* the inflate bound only exists in the redirect encoding
Sensible(x) == x.framing \in {"bomb", "bombvalid"} => x.entry \in RedirEntries

Cfgs     == { [trust |-> t, mid |-> m] : t \in {"one", "two"}, m \in {"90s", "10s", "1h"} }
CfgsMain == { [trust |-> t, mid |-> "90s"] : t \in {"one", "two"} }

InitQ == \/ /\ cfg \in Cfgs
            /\ in \in WithEntry(Singles(Base), Entries)
         \/ /\ cfg \in CfgsMain
            /\ in \in WithEntry(Pairs(Base), {"form", "redirect"})
InitT == \/ /\ cfg \in Cfgs
            /\ in \in WithEntry(Singles(Base) \cup Pairs(Base), Entries)
         \/ /\ cfg \in CfgsMain
            /\ in \in WithEntry(Triples(Base), {"form", "redirect"})

Direct(e) == e \in {"form", "redirect"}

Init == /\ CASE Tier = "q" -> InitQ [] Tier = "t" -> InitT
        /\ Sensible(in)
        /\ pc = IF Direct(in.entry) THEN "B64" ELSE "Dispatch"
        /\ cur = IF Direct(in.entry) THEN "main" ELSE "unset"
        /\ path = IF in.entry = "form" THEN "form" ELSE IF in.entry = "redirect" THEN "redirect" ELSE "unset"
        /\ doc = [id |-> "", sigs |-> <<>>]
        /\ sel = 0 /\ cert = "none" /\ verdict = "none" /\ step = "none"

----------------------------------------------------------------------------
(* the abstract document the harness builds for an input *)

OtherOf(k) == IF k = "att" THEN "idp1" ELSE "att"
KiOf(i) == CASE i.ki = "cert" -> i.key [] i.ki = "othercert" -> OtherOf(i.key) [] OTHER -> i.ki

Sig(i, where, ref, over) == [where |-> where, ref |-> ref, key |-> i.key, ki |-> KiOf(i), over |-> over, shape |-> "ok"]
AttSig == [where |-> "direct", ref |-> "r", key |-> "att", ki |-> "att", over |-> "root", shape |-> "ok"]
BadSig == [where |-> "direct", ref |-> "", key |-> "none", ki |-> "none", over |-> "other", shape |-> "bad"]

DocOf(i) ==
  CASE i.sig \in {"root", "junk"}  -> [id |-> "r", sigs |-> << Sig(i, "direct", "r", "root") >>]
    [] i.sig = "none"              -> [id |-> "r", sigs |-> << >>]
    \* the Signature element moved into a child element: still referenced, still digests
    [] i.sig = "moved"             -> [id |-> "r", sigs |-> << Sig(i, "deep", "r", "root") >>]
    \* signed, then one field edited: the digest no longer matches
    [] i.sig \in {"edit_dest", "edit_iss", "edit_status", "edit_time"}
                                   -> [id |-> "r", sigs |-> << Sig(i, "direct", "r", "other") >>]
    \* signature wrapping: forged root f around a genuine response g signed by i.key
    [] i.sig = "wrap_nosig"        -> [id |-> "f", sigs |-> << Sig(i, "deep", "g", "other") >>]
    [] i.sig = "wrap_copy"         -> [id |-> "f", sigs |-> << Sig(i, "direct", "g", "other"), Sig(i, "deep", "g", "other") >>]
    [] i.sig = "wrap_sameid"       -> [id |-> "g", sigs |-> << Sig(i, "direct", "g", "other"), Sig(i, "deep", "g", "other") >>]
    \* two Signature children, each computed over the unsigned root
    [] i.sig = "dup_mm"            -> [id |-> "r", sigs |-> << Sig(i, "direct", "r", "root"), Sig(i, "direct", "r", "root") >>]
    [] i.sig = "dup_ma"            -> [id |-> "r", sigs |-> << Sig(i, "direct", "r", "root"), AttSig >>]
    [] i.sig = "dup_am"            -> [id |-> "r", sigs |-> << AttSig, Sig(i, "direct", "r", "root") >>]
    [] i.sig = "dup_aa"            -> [id |-> "r", sigs |-> << AttSig, AttSig >>]
    [] i.sig = "emptysig"          -> [id |-> "r", sigs |-> << BadSig >>]

\* an unsigned message: the decoy of the two-message requests, and the forged first
\* element of a "leading" byte string (etree takes the first element as the root)
Unsigned == [id |-> "x", sigs |-> << >>]

----------------------------------------------------------------------------
(* the code, step by step *)

Keep == UNCHANGED <<cfg, in>>
Finish(v, why) == /\ pc' = "done" /\ verdict' = v /\ step' = why
                  /\ UNCHANGED <<cur, path, doc, sel, cert>>
Reject(why) == Finish("reject", why)
Goto(l) == pc' = l /\ UNCHANGED <<cur, path, doc, sel, cert, verdict, step>>
\* an unguarded dereference panics on the pinned tree; guarded it is an error
Deref(name, why) == IF name \in Unguarded THEN Finish("panic", why) ELSE Reject(why)

\* :1627 a non-empty SAMLResponse query parameter selects the redirect decoder,
\* otherwise the POST form value (empty when there is none) goes to the form decoder
InQuery == CASE in.entry \in {"req_get", "req_both_q"} -> "main" [] in.entry = "req_both_f" -> "decoy" [] OTHER -> "nothing"
InForm  == CASE in.entry \in {"req_post", "req_both_f"} -> "main" [] in.entry = "req_both_q" -> "decoy" [] OTHER -> "nothing"
Dispatch == /\ pc = "Dispatch" /\ Keep
            /\ LET qEmpty == InQuery = "nothing" \/ (InQuery = "main" /\ in.framing = "empty")
               IN /\ cur'  = IF qEmpty THEN InForm ELSE InQuery
                  /\ path' = IF qEmpty THEN "form" ELSE "redirect"
            /\ pc' = "B64" /\ UNCHANGED <<doc, sel, cert, verdict, step>>

\* framing of the byte string now being decoded
EF == CASE cur = "main" -> in.framing [] cur = "decoy" -> "ok" [] OTHER -> "empty"

\* :1645 / :1685
B64 == /\ pc = "B64" /\ Keep
       /\ IF EF = "notb64" THEN Reject("Base64")
          ELSE Goto(IF path = "redirect" THEN "Inflate" ELSE "RoundTrip")
\* :1692 raw deflate, at most 10 MB (an empty string is not a deflate stream)
Inflate == /\ pc = "Inflate" /\ Keep
           /\ IF EF \in {"empty", "garbage", "wrongenc", "bomb", "bombvalid", "truncated"}
                THEN Reject("Inflate") ELSE Goto("RoundTrip")
\* :1653 / :1698 xml-roundtrip-validator
RoundTrip == /\ pc = "RoundTrip" /\ Keep
             /\ IF EF \in {"garbage", "wrongenc", "unstable"} THEN Reject("RoundTrip") ELSE Goto("Parse")
\* :1658 / :1703 etree
Parse == /\ pc = "Parse" /\ Keep
         /\ IF EF = "truncated" THEN Reject("Parse") ELSE Goto("Root")
\* :1663 / :1708 doc.Root() is nil for a document without an element
Root == /\ pc = "Root" /\ Keep
        /\ IF EF \in {"empty", "rootless", "text"} THEN Deref("RootNil", "NoRoot")
           ELSE /\ doc' = IF cur = "decoy" \/ EF = "leading" THEN Unsigned ELSE DocOf(in)
                /\ pc' = "SigFind" /\ UNCHANGED <<cur, path, sel, cert, verdict, step>>

\* validateSignature :1264 exactly one ds:Signature child of the root, by namespace
DirectSigs == { i \in DOMAIN doc.sigs : doc.sigs[i].where = "direct" }
SigFind == /\ pc = "SigFind" /\ Keep
           /\ IF DirectSigs = {} THEN Reject("SigAbsent")
              ELSE IF Cardinality(DirectSigs) > 1 THEN Reject("SigDup")
              ELSE Goto("KeyInfoDrop")
\* :1273 trusted roots: metadata certificates with use "signing" or no use
Roots == IF cfg.trust = "one" THEN {"idp1"} ELSE {"idp1", "idp2"}
\* :1315 a KeyInfo without X509Certificate is removed from the direct Signature
KeyInfoDrop == /\ pc = "KeyInfoDrop" /\ Keep
               /\ LET i == CHOOSE j \in DirectSigs : TRUE
                  IN doc' = IF doc.sigs[i].ki \in {"none", "rsakv"}
                              THEN [doc EXCEPT !.sigs[i].ki = "none"] ELSE doc
               /\ pc' = "DsigFind" /\ UNCHANGED <<cur, path, sel, cert, verdict, step>>
\* goxmldsig findSignature: the whole subtree in document order; every Signature met is
\* shape-checked; the first whose Reference is "" or "#<root ID>" is taken
Stops(i) == doc.sigs[i].shape = "bad" \/ doc.sigs[i].ref \in {"", doc.id}
DsigFind == /\ pc = "DsigFind" /\ Keep
            /\ LET S == { i \in DOMAIN doc.sigs : Stops(i) }
               IN IF S = {} THEN Reject("SigNoRef")
                  ELSE LET i == CHOOSE j \in S : \A k \in S : j <= k
                       IN IF doc.sigs[i].shape = "bad" THEN Reject("SigShape")
                          ELSE /\ sel' = i /\ pc' = "DsigCert"
                               /\ UNCHANGED <<cur, path, doc, cert, verdict, step>>
\* verifyCertificate: KeyInfo certificate must be a root; without KeyInfo the only root is used
DsigCert == /\ pc = "DsigCert" /\ Keep
            /\ LET s == doc.sigs[sel]
               IN IF s.ki = "none"
                    THEN IF Cardinality(Roots) = 1
                           THEN /\ cert' = (CHOOSE r \in Roots : TRUE) /\ pc' = "DsigDigest"
                                /\ UNCHANGED <<cur, path, doc, sel, verdict, step>>
                           ELSE Reject("SigNoCert")
                  ELSE IF s.ki = "rsakv" THEN Reject("SigNoCert")
                  ELSE IF s.ki \in Roots
                         THEN /\ cert' = s.ki /\ pc' = "DsigDigest"
                              /\ UNCHANGED <<cur, path, doc, sel, verdict, step>>
                         ELSE Reject("SigUntrustedCert")
\* validateSignature (dsig): enveloped transform removes the selected Signature, digest compared
DsigDigest == /\ pc = "DsigDigest" /\ Keep
              /\ IF doc.sigs[sel].over # "root" THEN Reject("SigDigest") ELSE Goto("DsigVerify")
\* verifySignedInfo under the public key of the chosen certificate
DsigVerify == /\ pc = "DsigVerify" /\ Keep
              /\ IF doc.sigs[sel].key # cert THEN Reject("SigValue") ELSE Goto("Unmarshal")

\* :1669 / :1714 xml.Unmarshal into LogoutResponse: element name and namespace, RelaxedTime
Unmarshal == /\ pc = "Unmarshal" /\ Keep
             /\ IF in.root # "ok" \/ in.time = "malformed" THEN Reject("Unmarshal") ELSE Goto("Dest")
\* :1723
Dest == /\ pc = "Dest" /\ Keep
        /\ IF in.dest # "eq" THEN Reject("Destination") ELSE Goto("Fresh")
\* :1727 wall clock; an absent IssueInstant is the zero instant; inside the guard band either way
Fresh == /\ pc = "Fresh" /\ Keep
         /\ \E ok \in (IF in.time = "band" THEN BOOLEAN ELSE { in.time \in {"fresh", "edge_fresh", "future"} }) :
              IF ok THEN Goto("Issuer") ELSE Reject("IssueInstant")
\* :1731 resp.Issuer is a pointer
Issuer == /\ pc = "Issuer" /\ Keep
          /\ IF in.iss = "absent" THEN Deref("IssuerNil", "IssuerAbsent")
             ELSE IF in.iss # "eq" THEN Reject("Issuer") ELSE Goto("Status")
\* :1734
Status == /\ pc = "Status" /\ Keep
          /\ IF in.status # "Success" THEN Reject("Status") ELSE Finish("accept", "none")

Next == Dispatch \/ B64 \/ Inflate \/ RoundTrip \/ Parse \/ Root \/ SigFind \/ KeyInfoDrop \/ DsigFind
        \/ DsigCert \/ DsigDigest \/ DsigVerify \/ Unmarshal \/ Dest \/ Fresh \/ Issuer \/ Status
Spec == Init /\ [][Next]_vars

----------------------------------------------------------------------------
(* Properties - from the statement of C18:                                  *)
(*   "A logout response, in POST or redirect encoding, is reported valid    *)
(*    only if it carries an enveloped signature verifying under a trusted   *)
(*    IdP certificate, is addressed to the SP's logout URL, was issued by   *)
(*    the configured IdP no longer than MaxIssueDelay ago and has status    *)
(*    Success.  A well-formed logout response meeting all of these is       *)
(*    reported valid, and every other input yields an error."               *)
Done == pc = "done"

\* certificates the IdP's metadata offers for signing
Trusted == IF cfg.trust = "one" THEN {"idp1"} ELSE {"idp1", "idp2"}
D == DocOf(in)

\* the byte string does not decode to a document whose root is the message
FramingBad == in.framing \in {"empty", "notb64", "garbage", "wrongenc", "bomb", "truncated",
                              "rootless", "text", "unstable", "leading"}
\* decodes, but is not a well-formed single document (trailing element; 11 MB of padding)
FramingOdd == in.framing \in {"trailing", "bombvalid"}
\* some Signature inside the root references it, digests to it and was made by a trusted key
SigVerifies == \E i \in DOMAIN D.sigs : /\ D.sigs[i].shape = "ok" /\ D.sigs[i].ref = D.id
                                        /\ D.sigs[i].over = "root" /\ D.sigs[i].key \in Trusted
\* ... and it is the only one, a child of the root, naming its own certificate, nothing unsigned inside
SigClean == SigVerifies /\ in.sig = "root" /\ in.ki = "cert"
NotLogoutResponse == in.root # "ok"
DestBad   == in.dest # "eq"
IssBad    == in.iss # "eq"
StatusBad == in.status # "Success"
Stale     == in.time \in {"edge_stale", "stale", "absent", "malformed"}
FreshSure == in.time \in {"fresh", "edge_fresh"}

TwoMessages == in.entry \in {"req_both_q", "req_both_f"}     \* the second one is unsigned

MustReject == FramingBad \/ ~SigVerifies \/ NotLogoutResponse \/ DestBad \/ IssBad \/ StatusBad \/ Stale
MustAccept == /\ in.framing = "ok" /\ SigClean /\ ~NotLogoutResponse /\ ~DestBad /\ ~IssBad /\ ~StatusBad
              /\ FreshSure /\ ~TwoMessages
Class == IF MustReject THEN "MustReject" ELSE IF MustAccept THEN "MustAccept" ELSE "DontCare"

RejectsBad  == Done /\ MustReject => verdict = "reject"
AcceptsGood == Done /\ MustAccept => verdict = "accept"
ValidOnlyIfSignedFreshAddressed ==
  Done /\ verdict = "accept" => /\ ~FramingBad /\ SigVerifies /\ ~NotLogoutResponse
                                /\ ~DestBad /\ ~IssBad /\ ~StatusBad /\ ~Stale
\* every input yields nil or an error, never a panic
Total == Done => verdict \in {"accept", "reject"}

Emit == Done => PrintT(<<"VEC", ToJson([prop |-> "C18", cfg |-> cfg, in |-> in, class |-> Class,
                                        why |-> [framing |-> FramingBad, odd |-> FramingOdd, sig |-> ~SigVerifies,
                                                 sigClean |-> SigClean, root |-> NotLogoutResponse,
                                                 dest |-> DestBad, iss |-> IssBad, status |-> StatusBad,
                                                 stale |-> Stale, fresh |-> FreshSure, two |-> TwoMessages],
                                        pred |-> [verdict |-> verdict, step |-> step, path |-> path, cur |-> cur]])>>)
=============================================================================
