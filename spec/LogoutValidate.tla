---------------------------- MODULE LogoutValidate ----------------------------
(***************************************************************************)
(* C18 - validation of a SAML LogoutResponse by the service provider, as a *)
(* step machine with one action per step of service_provider.go            *)
(*   ValidateLogoutResponseRequest   :1645  (query wins over form)         *)
(*   ValidateLogoutResponseForm      :1659  base64 -> xrv -> etree -> root *)
(*   ValidateLogoutResponseRedirect  :1704  base64 -> bounded inflate ->.. *)
(*   validateSignature               :1282  Signature child, TRUST ROOTS   *)
(*                                          (metadata | fingerprint |      *)
(*                                          pinned), + goxmldsig Validate  *)
(*   getIDPSigningCerts              :385   use "signing" or omitted       *)
(*   getCertBasedOnFingerprint       :428   KeyInfo certificate by digest  *)
(*   unmarshalElement / LogoutResponse.UnmarshalXML                        *)
(*   validateLogoutResponse          :1751  Destination, freshness (WALL   *)
(*                                          clock), Issuer, Status         *)
(*                                                                         *)
(* Abstractions.  Strings are their relation to the expected value (eq /   *)
(* wrong / near-miss / empty / absent).  IssueInstant is a class around    *)
(* the freshness bound now - MaxIssueDelay.  The byte string is a framing  *)
(* class.  The document is a small signature tree: the ID of the root and, *)
(* in document order, every ds:Signature element in its subtree with       *)
(*   where  direct child of the root | deeper                              *)
(*   ref    the ID its Reference points to                                 *)
(*   key    the private key that produced SignatureValue                   *)
(*   ki     the certificate named in KeyInfo (a key name), none, rsakv     *)
(*   over   "root" iff DigestValue is the digest of the present root minus *)
(*          this Signature element, else "other"                           *)
(*   shape  ok | bad (Signature element without SignedInfo/SignatureValue) *)
(*                                                                         *)
(* The trust configuration of the ServiceProvider is a dimension: what     *)
(* sp.IDPMetadata lists (key descriptors with their use and certificates), *)
(* a pinned IDPCertificate, an IDPCertificateFingerprint + algorithm, and  *)
(* their combinations (TrustOf).  The Status element is a structure: the   *)
(* top-level StatusCode class, the class of a StatusCode NESTED in it, and *)
(* optional StatusMessage / StatusDetail.                                  *)
(*                                                                         *)
(* Named deviations.  The pinned tree dereferences doc.Root() and          *)
(* resp.Issuer without a guard.  Unguarded \subseteq {"RootNil",           *)
(* "IssuerNil"} selects the unguarded behaviour (verdict "panic"); the     *)
(* registered configurations use {} - the design the property demands -    *)
(* and LogoutValidate_pinned.cfg shows TLC refuting Total for the pinned   *)
(* behaviour.  EveryRoleTrusted (FALSE in the registered configurations):  *)
(* getIDPSigningCerts also collects the signing / use-less certificates of *)
(* the entity's SPSSODescriptors and AttributeAuthorityDescriptors; TLC     *)
(* refutes RejectsBad (LogoutValidate_everyrole.cfg).                      *)
(*                                                                         *)
(* The Properties section is written from the statement of C18 only.       *)
(***************************************************************************)
EXTENDS Integers, Sequences, FiniteSets, TLC, Json

CONSTANTS Tier, Unguarded, EveryRoleTrusted

PostEntries  == {"form", "req_post", "req_both_f"}
RedirEntries == {"redirect", "req_get", "req_both_q"}
Entries      == PostEntries \cup RedirEntries

FramingCls == {"ok", "empty", "notb64", "garbage", "wrongenc", "bomb", "bombvalid", "truncated",
               "rootless", "text", "unstable", "trailing", "leading"}
RootCls == {"ok", "otherelem", "otherns"}
SigCls  == {"root", "none", "moved", "edit_dest", "edit_iss", "edit_status", "edit_time",
            "wrap_nosig", "wrap_copy", "wrap_sameid", "dup_mm", "dup_ma", "dup_am", "dup_aa",
            "junk", "emptysig"}
\* role: a key the IdP's entity publishes for ANOTHER role only (its SPSSODescriptor / its
\* AttributeAuthorityDescriptor), never in an IDPSSODescriptor
KeyCls  == {"idp1", "idp2", "idpenc", "att", "role"}
KiCls   == {"cert", "none", "rsakv", "othercert"}
DestCls == {"eq", "wrong", "case", "slash", "query", "prefix", "suffix", "empty", "absent"}
IssCls  == {"eq", "wrong", "case", "slash", "prefix", "suffix", "empty", "absent"}
\* top-level StatusCode: a SAML top-level code, a second-level URI used at the top
\* (PartialLogout), an unknown URI, Success in another letter case, Value="", a Status
\* without StatusCode, no Status
StatCls == {"Success", "Requester", "Responder", "VersionMismatch", "PartialLogout", "unknown", "case",
            "empty", "nocode", "absent"}
\* the StatusCode nested inside the top-level one
SubCls  == {"none", "PartialLogout", "AuthnFailed", "RequestDenied", "Success", "unknown"}
\* optional StatusMessage / StatusDetail after the StatusCode
SxCls   == {"none", "msg", "detail", "both"}
\* fresh / edge_fresh: at least a guard band inside the bound; band: within +-5 s of it;
\* edge_stale / stale: at least 30 s outside; future: dated after now
TimeCls == {"fresh", "edge_fresh", "band", "edge_stale", "stale", "future", "absent", "malformed"}

VARIABLES cfg, in, pc, cur, path, doc, roots, sel, cert, verdict, step
vars == <<cfg, in, pc, cur, path, doc, roots, sel, cert, verdict, step>>

----------------------------------------------------------------------------
(* trust configurations of the ServiceProvider.  md: the KeyDescriptors of  *)
(* sp.IDPMetadata in order (use, certificates by key name); mdnil: no       *)
(* IDPMetadata at all; pin: IDPCertificate; fp/alg: IDPCertificateFinger-   *)
(* print of that key's certificate / IDPCertificateFingerprintAlgorithm.    *)
(* md is what the IDPSSODescriptor carries; oth: the KeyDescriptors of the  *)
(* OTHER role descriptors of the same EntityDescriptor, in document order   *)
(* (role "sp" = SPSSODescriptor, "aa" = AttributeAuthorityDescriptor).      *)

KD(use, certs) == [use |-> use, certs |-> certs]
MdOne   == << KD("signing", <<"idp1">>) >>
MdTwo   == << KD("signing", <<"idp1">>), KD("", <<"idp2">>), KD("encryption", <<"idpenc">>) >>
MdOther == << KD("signing", <<"idp2">>) >>
RKD(role, use, certs) == [role |-> role, use |-> use, certs |-> certs]
TC0 == [mdnil |-> FALSE, md |-> << >>, oth |-> << >>, pin |-> "none", fp |-> "none", alg |-> "none"]

TrustCls == {"one", "two", "unspec", "multi", "enconly", "encsig", "other", "nokeys",
             "role_sp", "role_aa", "role_only",
             "pin", "pin_same", "pin_other", "pin_two", "pin2_one", "pin_nomd",
             "fp", "fp_same", "fp_other", "fp512_two", "fp2_one",
             "fp_badalg", "fp_noalg", "pin_fp"}
TrustOf(t) ==
  CASE t = "one"       -> [TC0 EXCEPT !.md = MdOne]
    [] t = "two"       -> [TC0 EXCEPT !.md = MdTwo]
    [] t = "unspec"    -> [TC0 EXCEPT !.md = << KD("", <<"idp1">>) >>]                  \* use omitted
    [] t = "multi"     -> [TC0 EXCEPT !.md = << KD("signing", <<"idp2", "idp1">>) >>]   \* several in one descriptor
    [] t = "enconly"   -> [TC0 EXCEPT !.md = << KD("encryption", <<"idp1">>) >>]
    [] t = "encsig"    -> [TC0 EXCEPT !.md = << KD("encryption", <<"idp1">>), KD("signing", <<"idp2">>) >>]
    [] t = "other"     -> [TC0 EXCEPT !.md = MdOther]
    [] t = "nokeys"    -> TC0
    \* the entity declares further roles, each with keys of its own
    [] t = "role_sp"   -> [TC0 EXCEPT !.md = MdOne,
                                      !.oth = << RKD("sp", "signing", <<"role">>), RKD("sp", "encryption", <<"idpenc">>) >>]
    [] t = "role_aa"   -> [TC0 EXCEPT !.md = << KD("", <<"idp1">>) >>, !.oth = << RKD("aa", "", <<"role">>) >>]
    \* ... and the IDPSSODescriptor offers nothing for signing
    [] t = "role_only" -> [TC0 EXCEPT !.md = << KD("encryption", <<"idpenc">>) >>,
                                      !.oth = << RKD("sp", "signing", <<"role">>), RKD("aa", "", <<"idp2">>) >>]
    \* pinned certificate x what the metadata lists at the same time
    [] t = "pin"       -> [TC0 EXCEPT !.pin = "idp1"]
    [] t = "pin_same"  -> [TC0 EXCEPT !.pin = "idp1", !.md = MdOne]
    [] t = "pin_other" -> [TC0 EXCEPT !.pin = "idp1", !.md = MdOther]
    [] t = "pin_two"   -> [TC0 EXCEPT !.pin = "idp1", !.md = MdTwo]
    [] t = "pin2_one"  -> [TC0 EXCEPT !.pin = "idp2", !.md = MdOne]
    [] t = "pin_nomd"  -> [TC0 EXCEPT !.pin = "idp1", !.mdnil = TRUE]
    \* fingerprint x what the metadata lists at the same time
    [] t = "fp"        -> [TC0 EXCEPT !.fp = "idp1", !.alg = "sha256"]
    [] t = "fp_same"   -> [TC0 EXCEPT !.fp = "idp1", !.alg = "sha256", !.md = MdOne]
    [] t = "fp_other"  -> [TC0 EXCEPT !.fp = "idp1", !.alg = "sha256", !.md = MdOther]
    [] t = "fp512_two" -> [TC0 EXCEPT !.fp = "idp1", !.alg = "sha512", !.md = MdTwo]
    [] t = "fp2_one"   -> [TC0 EXCEPT !.fp = "idp2", !.alg = "sha512", !.md = MdOne]
    \* settings the field documentation excludes
    [] t = "fp_badalg" -> [TC0 EXCEPT !.fp = "idp1", !.alg = "sha1", !.md = MdOne]
    [] t = "fp_noalg"  -> [TC0 EXCEPT !.fp = "idp1", !.md = MdOne]
    [] t = "pin_fp"    -> [TC0 EXCEPT !.pin = "idp1", !.fp = "idp1", !.alg = "sha256", !.md = MdOne]
TC == TrustOf(cfg.trust)
SeqRange(q) == { q[i] : i \in DOMAIN q }

----------------------------------------------------------------------------
(* input families *)

Base == [entry |-> "form", framing |-> "ok", root |-> "ok", sig |-> "root", key |-> "idp1", ki |-> "cert",
         dest |-> "eq", iss |-> "eq", status |-> "Success", sub |-> "none", sx |-> "none", time |-> "fresh",
         trust |-> "one"]

\* the families are sets of extended inputs: the fields of the message plus the trust
\* configuration it is sent to (Init splits them into cfg and in)
Fields     == {"framing", "root", "sig", "key", "ki", "dest", "iss", "status", "sub", "sx", "time", "trust"}
MsgFields  == Fields \ {"trust"}
\* the fields crossed pairwise with each other (the Status structure and the trust
\* configuration have their own families below)
PairFields == MsgFields \ {"sub", "sx"}
FieldDom(f) == CASE f = "framing" -> FramingCls [] f = "root" -> RootCls [] f = "sig" -> SigCls
                 [] f = "key" -> KeyCls [] f = "ki" -> KiCls [] f = "dest" -> DestCls
                 [] f = "iss" -> IssCls [] f = "status" -> StatCls [] f = "sub" -> SubCls [] f = "sx" -> SxCls
                 [] f = "time" -> TimeCls [] f = "trust" -> TrustCls
Vary(b, f, v) == [b EXCEPT ![f] = v]

Singles(b) == UNION { { Vary(b, f, v) : v \in FieldDom(f) } : f \in MsgFields }
\* (field index, value) pairs; pairs and triples take them at increasing indexes
\* (one comprehension each: TLC's UNION of many large sets is quadratic)
PairSeq == <<"framing", "root", "sig", "key", "ki", "dest", "iss", "status", "time">>
\* the fields that decide the verdict of a well-framed message
CoreSeq == <<"sig", "key", "ki", "dest", "iss", "status", "time">>
IV(seq)     == UNION { { <<i, v>> : v \in FieldDom(seq[i]) } : i \in DOMAIN seq }
IVx(seq, b) == UNION { { <<i, v>> : v \in FieldDom(seq[i]) \ {b[seq[i]]} } : i \in DOMAIN seq }
Pairs(b) == { Vary(Vary(b, PairSeq[p[1]], p[2]), PairSeq[q[1]], q[2]) :
                <<p, q>> \in { t \in IV(PairSeq) \X IV(PairSeq) : t[1][1] < t[2][1] } }
CorePairs(b) == { Vary(Vary(b, CoreSeq[p[1]], p[2]), CoreSeq[q[1]], q[2]) :
                    <<p, q>> \in { t \in IVx(CoreSeq, b) \X IVx(CoreSeq, b) : t[1][1] < t[2][1] } }
Triples(b) == { Vary(Vary(Vary(b, CoreSeq[p[1]], p[2]), CoreSeq[q[1]], q[2]), CoreSeq[r[1]], r[2]) :
                  <<p, q, r>> \in { t \in IVx(CoreSeq, b) \X IVx(CoreSeq, b) \X IVx(CoreSeq, b) :
                                    t[1][1] < t[2][1] /\ t[2][1] < t[3][1] } }

\* the trust family: who signed x what KeyInfo names x where the Signature sits
Signers(b, SS) == { [b EXCEPT !.key = k, !.ki = c, !.sig = s] : k \in KeyCls, c \in KiCls, s \in SS }
\* the Status family: top-level code x nested code x StatusMessage / StatusDetail
Statuses(b) == { [b EXCEPT !.status = t, !.sub = u, !.sx = e] : t \in StatCls, u \in SubCls, e \in SxCls }

WithEntry(S, E) == { [x EXCEPT !.entry = e] : x \in S, e \in E }
WithTrust(S, T) == { [x EXCEPT !.trust = t] : x \in S, t \in T }
Sensible(x) == \* the inflate bound only exists in the redirect encoding
               /\ x.framing \in {"bomb", "bombvalid"} => x.entry \in RedirEntries
               \* a nested code needs a StatusCode to sit in, a StatusMessage a Status element
               /\ x.sub # "none" => x.status \notin {"nocode", "absent"}
               /\ x.sx # "none" => x.status # "absent"

Mids == {"90s", "10s", "1h"}
Old2 == {"one", "two"}                  \* metadata-only trust, one / several certificates
Both == {"form", "redirect"}

\* The families (constants, evaluated once).  Quick: single and pairwise deviations;
\* thorough: pairs through every entry point and triples over the deciding fields.
Q == Tier = "q"
\* configurations where the metadata lists a key the configuration does not trust, or several
TrustMain == {"multi", "encsig", "role_sp", "pin_other", "pin_two", "pin2_one", "fp_other", "fp512_two"}
\* metadata-only trust with one / several certificates x deviations        (x Mids)
F1 == WithEntry(WithTrust(IF Q THEN Singles(Base) ELSE Singles(Base) \cup Pairs(Base), Old2), Entries)
F2 == WithEntry(WithTrust(IF Q THEN Pairs(Base) ELSE Triples(Base), Old2), Both)
\* every trust configuration x every single deviation (thorough: x pairs of deciding fields)
F3 == WithEntry(WithTrust(Singles(Base), TrustCls), IF Q THEN Both ELSE Entries)
F4 == IF Q THEN {} ELSE WithEntry(WithTrust(CorePairs(Base), TrustMain), Both)
\* every trust configuration x signer x KeyInfo, through every entry point; x Signature position
F5 == WithEntry(WithTrust(Signers(Base, {"root"}), TrustCls), Entries)
F6 == WithEntry(WithTrust(Signers(Base, IF Q THEN {"moved", "dup_am"} ELSE SigCls), TrustCls), Both)
\* every trust configuration x the valid message, through every entry point      (x Mids)
F7 == WithEntry(WithTrust({Base}, TrustCls), Entries)
\* the Status structure, through every entry point; under other trust configurations; and
\* (thorough) around every single deviation
F8 == WithEntry(Statuses(Base), Entries)
F9 == WithEntry(WithTrust(Statuses(Base), IF Q THEN {"pin_two"} ELSE TrustCls), Both)
F10 == IF Q THEN {}
       ELSE WithEntry({ [y EXCEPT !.status = t, !.sub = u, !.sx = e] :
                          y \in Singles(Base), t \in StatCls, u \in SubCls, e \in {"none", "both"} }, Both)

MsgOf(x) == [f \in (DOMAIN x) \ {"trust"} |-> x[f]]
Direct(e) == e \in {"form", "redirect"}
Start(x, m) == /\ Sensible(x)
               /\ cfg = [trust |-> x.trust, mid |-> m]
               /\ in = MsgOf(x)

Init == /\ \/ \E x \in F1 \cup F7, m \in Mids : Start(x, m)
           \/ \E x \in F2 \cup F3 \cup F4 \cup F5 \cup F6 \cup F8 \cup F9 \cup F10 : Start(x, "90s")
        /\ pc = IF Direct(in.entry) THEN "B64" ELSE "Dispatch"
        /\ cur = IF Direct(in.entry) THEN "main" ELSE "unset"
        /\ path = IF in.entry = "form" THEN "form" ELSE IF in.entry = "redirect" THEN "redirect" ELSE "unset"
        /\ doc = [id |-> "", sigs |-> <<>>]
        /\ roots = {}
        /\ sel = 0 /\ cert = "none" /\ verdict = "none" /\ step = "none"

----------------------------------------------------------------------------
(* the abstract document the harness builds for an input *)

OtherOf(k) == IF k = "att" THEN "idp1" ELSE "att"
KiOf(i) == CASE i.ki = "cert" -> i.key [] i.ki = "othercert" -> OtherOf(i.key) [] OTHER -> i.ki

Sig(i, where, ref, over) == [where |-> where, ref |-> ref, key |-> i.key, ki |-> KiOf(i), over |-> over, shape |-> "ok"]
AttSig == [where |-> "direct", ref |-> "r", key |-> "att", ki |-> "att", over |-> "root", shape |-> "ok"]
BadSig == [where |-> "direct", ref |-> "", key |-> "none", ki |-> "none", over |-> "other", shape |-> "bad"]

DocOf(i) ==
  CASE i.sig \in {"root", "junk"}  -> [id |-> "r", sigs |-> << Sig(i, "direct", "r", "root") >>]
    [] i.sig = "none"              -> [id |-> "r", sigs |-> << >>]
    \* the Signature element moved into a child element: still referenced, still digests
    [] i.sig = "moved"             -> [id |-> "r", sigs |-> << Sig(i, "deep", "r", "root") >>]
    \* signed, then one field edited: the digest no longer matches
    [] i.sig \in {"edit_dest", "edit_iss", "edit_status", "edit_time"}
                                   -> [id |-> "r", sigs |-> << Sig(i, "direct", "r", "other") >>]
    \* signature wrapping: forged root f around a genuine response g signed by i.key
    [] i.sig = "wrap_nosig"        -> [id |-> "f", sigs |-> << Sig(i, "deep", "g", "other") >>]
    [] i.sig = "wrap_copy"         -> [id |-> "f", sigs |-> << Sig(i, "direct", "g", "other"), Sig(i, "deep", "g", "other") >>]
    [] i.sig = "wrap_sameid"       -> [id |-> "g", sigs |-> << Sig(i, "direct", "g", "other"), Sig(i, "deep", "g", "other") >>]
    \* two Signature children, each computed over the unsigned root
    [] i.sig = "dup_mm"            -> [id |-> "r", sigs |-> << Sig(i, "direct", "r", "root"), Sig(i, "direct", "r", "root") >>]
    [] i.sig = "dup_ma"            -> [id |-> "r", sigs |-> << Sig(i, "direct", "r", "root"), AttSig >>]
    [] i.sig = "dup_am"            -> [id |-> "r", sigs |-> << AttSig, Sig(i, "direct", "r", "root") >>]
    [] i.sig = "dup_aa"            -> [id |-> "r", sigs |-> << AttSig, AttSig >>]
    [] i.sig = "emptysig"          -> [id |-> "r", sigs |-> << BadSig >>]

\* an unsigned message: the decoy of the two-message requests, and the forged first
\* element of a "leading" byte string (etree takes the first element as the root)
Unsigned == [id |-> "x", sigs |-> << >>]

----------------------------------------------------------------------------
(* the code, step by step *)

Keep == UNCHANGED <<cfg, in>>
Finish(v, why) == /\ pc' = "done" /\ verdict' = v /\ step' = why
                  /\ UNCHANGED <<cur, path, doc, roots, sel, cert>>
Reject(why) == Finish("reject", why)
Goto(l) == pc' = l /\ UNCHANGED <<cur, path, doc, roots, sel, cert, verdict, step>>
\* an unguarded dereference panics on the pinned tree; guarded it is an error
Deref(name, why) == IF name \in Unguarded THEN Finish("panic", why) ELSE Reject(why)

\* :1646 a non-empty SAMLResponse query parameter selects the redirect decoder,
\* otherwise the POST form value (empty when there is none) goes to the form decoder
InQuery == CASE in.entry \in {"req_get", "req_both_q"} -> "main" [] in.entry = "req_both_f" -> "decoy" [] OTHER -> "nothing"
InForm  == CASE in.entry \in {"req_post", "req_both_f"} -> "main" [] in.entry = "req_both_q" -> "decoy" [] OTHER -> "nothing"
Dispatch == /\ pc = "Dispatch" /\ Keep
            /\ LET qEmpty == InQuery = "nothing" \/ (InQuery = "main" /\ in.framing = "empty")
               IN /\ cur'  = IF qEmpty THEN InForm ELSE InQuery
                  /\ path' = IF qEmpty THEN "form" ELSE "redirect"
            /\ pc' = "B64" /\ UNCHANGED <<doc, roots, sel, cert, verdict, step>>

\* framing of the byte string now being decoded
EF == CASE cur = "main" -> in.framing [] cur = "decoy" -> "ok" [] OTHER -> "empty"

\* :1664 / :1709
B64 == /\ pc = "B64" /\ Keep
       /\ IF EF = "notb64" THEN Reject("Base64")
          ELSE Goto(IF path = "redirect" THEN "Inflate" ELSE "RoundTrip")
\* :1716 raw deflate, at most 10 MB (an empty string is not a deflate stream)
Inflate == /\ pc = "Inflate" /\ Keep
           /\ IF EF \in {"empty", "garbage", "wrongenc", "bomb", "bombvalid", "truncated"}
                THEN Reject("Inflate") ELSE Goto("RoundTrip")
\* :1672 / :1722 xml-roundtrip-validator
RoundTrip == /\ pc = "RoundTrip" /\ Keep
             /\ IF EF \in {"garbage", "wrongenc", "unstable"} THEN Reject("RoundTrip") ELSE Goto("Parse")
\* :1677 / :1727 etree
Parse == /\ pc = "Parse" /\ Keep
         /\ IF EF = "truncated" THEN Reject("Parse") ELSE Goto("Root")
\* :1682 / :1732 doc.Root() is nil for a document without an element
Root == /\ pc = "Root" /\ Keep
        /\ IF EF \in {"empty", "rootless", "text"} THEN Deref("RootNil", "NoRoot")
           ELSE /\ doc' = IF cur = "decoy" \/ EF = "leading" THEN Unsigned ELSE DocOf(in)
                /\ pc' = "SigFind" /\ UNCHANGED <<cur, path, roots, sel, cert, verdict, step>>

\* validateSignature :1283 exactly one ds:Signature child of the root, by namespace
DirectSigs == { i \in DOMAIN doc.sigs : doc.sigs[i].where = "direct" }
SigFind == /\ pc = "SigFind" /\ Keep
           /\ IF DirectSigs = {} THEN Reject("SigAbsent")
              ELSE IF Cardinality(DirectSigs) > 1 THEN Reject("SigDup")
              ELSE Goto("Roots")
\* getIDPSigningCerts :385 every certificate of the key descriptors whose use is
\* "signing" or missing, of the IDPSSODescriptors ONLY (the key descriptors of the
\* entity's other role descriptors are not read); none at all is an error
SigningCertsOf(q) == UNION { SeqRange(q[i].certs) : i \in { j \in DOMAIN q : q[j].use \in {"", "signing"} } }
MdSigningCerts(t) == SigningCertsOf(t.md) \cup (IF EveryRoleTrusted THEN SigningCertsOf(t.oth) ELSE {})
\* validateSignature :1291-1313 the trust roots: three branches, each needs IDPMetadata,
\*   neither fingerprint setting nor pinned certificate -> the metadata signing certificates
\*   fingerprint and algorithm, no pinned certificate   -> getCertBasedOnFingerprint :428:
\*       the X509Certificate in the KeyInfo of the Signature child, if its digest under
\*       the configured algorithm equals the configured fingerprint
\*   pinned certificate, neither fingerprint setting     -> that certificate alone
\* and no root at all is an error
SetRoots(R) == /\ roots' = R /\ pc' = "KeyInfoDrop"
               /\ UNCHANGED <<cur, path, doc, sel, cert, verdict, step>>
Roots == /\ pc = "Roots" /\ Keep
         /\ LET t == TC
                s == doc.sigs[CHOOSE j \in DirectSigs : TRUE]
            IN IF t.mdnil THEN Reject("NoRoots")
               ELSE IF t.fp = "none" /\ t.alg = "none" /\ t.pin = "none"
                 THEN (IF MdSigningCerts(t) = {} THEN Reject("NoSigningCert") ELSE SetRoots(MdSigningCerts(t)))
               ELSE IF t.fp # "none" /\ t.alg # "none" /\ t.pin = "none"
                 THEN (IF s.shape = "bad" \/ s.ki \in {"none", "rsakv"} THEN Reject("FpNoCert")
                       ELSE IF t.alg \notin {"sha256", "sha512"} THEN Reject("FpAlgorithm")
                       ELSE IF s.ki # t.fp THEN Reject("FpMismatch")
                       ELSE SetRoots({s.ki}))
               ELSE IF t.fp = "none" /\ t.alg = "none" /\ t.pin # "none"
                 THEN SetRoots({t.pin})
               ELSE Reject("NoRoots")
\* :1334 a KeyInfo without X509Certificate is removed from the direct Signature
KeyInfoDrop == /\ pc = "KeyInfoDrop" /\ Keep
               /\ LET i == CHOOSE j \in DirectSigs : TRUE
                  IN doc' = IF doc.sigs[i].ki \in {"none", "rsakv"}
                              THEN [doc EXCEPT !.sigs[i].ki = "none"] ELSE doc
               /\ pc' = "DsigFind" /\ UNCHANGED <<cur, path, roots, sel, cert, verdict, step>>
\* goxmldsig findSignature: the whole subtree in document order; every Signature met is
\* shape-checked; the first whose Reference is "" or "#<root ID>" is taken
Stops(i) == doc.sigs[i].shape = "bad" \/ doc.sigs[i].ref \in {"", doc.id}
DsigFind == /\ pc = "DsigFind" /\ Keep
            /\ LET S == { i \in DOMAIN doc.sigs : Stops(i) }
               IN IF S = {} THEN Reject("SigNoRef")
                  ELSE LET i == CHOOSE j \in S : \A k \in S : j <= k
                       IN IF doc.sigs[i].shape = "bad" THEN Reject("SigShape")
                          ELSE /\ sel' = i /\ pc' = "DsigCert"
                               /\ UNCHANGED <<cur, path, doc, roots, cert, verdict, step>>
\* verifyCertificate: KeyInfo certificate must be a root; without KeyInfo the only root is used
\* (a list: the same certificate twice counts twice - the configurations here list each once)
DsigCert == /\ pc = "DsigCert" /\ Keep
            /\ LET s == doc.sigs[sel]
               IN IF s.ki = "none"
                    THEN IF Cardinality(roots) = 1
                           THEN /\ cert' = (CHOOSE r \in roots : TRUE) /\ pc' = "DsigDigest"
                                /\ UNCHANGED <<cur, path, doc, roots, sel, verdict, step>>
                           ELSE Reject("SigNoCert")
                  ELSE IF s.ki = "rsakv" THEN Reject("SigNoCert")
                  ELSE IF s.ki \in roots
                         THEN /\ cert' = s.ki /\ pc' = "DsigDigest"
                              /\ UNCHANGED <<cur, path, doc, roots, sel, verdict, step>>
                         ELSE Reject("SigUntrustedCert")
\* validateSignature (dsig): enveloped transform removes the selected Signature, digest compared
DsigDigest == /\ pc = "DsigDigest" /\ Keep
              /\ IF doc.sigs[sel].over # "root" THEN Reject("SigDigest") ELSE Goto("DsigVerify")
\* verifySignedInfo under the public key of the chosen certificate
DsigVerify == /\ pc = "DsigVerify" /\ Keep
              /\ IF doc.sigs[sel].key # cert THEN Reject("SigValue") ELSE Goto("Unmarshal")

\* :1693 / :1743 xml.Unmarshal into LogoutResponse: element name and namespace, RelaxedTime
Unmarshal == /\ pc = "Unmarshal" /\ Keep
             /\ IF in.root # "ok" \/ in.time = "malformed" THEN Reject("Unmarshal") ELSE Goto("Dest")
\* :1752
Dest == /\ pc = "Dest" /\ Keep
        /\ IF in.dest # "eq" THEN Reject("Destination") ELSE Goto("Fresh")
\* :1757 wall clock; an absent IssueInstant is the zero instant; inside the guard band either way
Fresh == /\ pc = "Fresh" /\ Keep
         /\ \E ok \in (IF in.time = "band" THEN BOOLEAN ELSE { in.time \in {"fresh", "edge_fresh", "future"} }) :
              IF ok THEN Goto("Issuer") ELSE Reject("IssueInstant")
\* :1760 resp.Issuer is a pointer
Issuer == /\ pc = "Issuer" /\ Keep
          /\ IF in.iss = "absent" THEN Deref("IssuerNil", "IssuerAbsent")
             ELSE IF in.iss # "eq" THEN Reject("Issuer") ELSE Goto("Status")
\* :1763 resp.Status.StatusCode.Value, the top-level code, compared with Success; what the
\* code nests, StatusMessage and StatusDetail are unmarshalled and not looked at
Status == /\ pc = "Status" /\ Keep
          /\ IF in.status # "Success" THEN Reject("Status") ELSE Finish("accept", "none")

Next == Dispatch \/ B64 \/ Inflate \/ RoundTrip \/ Parse \/ Root \/ SigFind \/ Roots \/ KeyInfoDrop \/ DsigFind
        \/ DsigCert \/ DsigDigest \/ DsigVerify \/ Unmarshal \/ Dest \/ Fresh \/ Issuer \/ Status
Spec == Init /\ [][Next]_vars

----------------------------------------------------------------------------
(* Properties - from the statement of C18:                                  *)
(*   "A logout response, in POST or redirect encoding, is reported valid    *)
(*    only if it carries an enveloped signature verifying under a trusted   *)
(*    IdP certificate, is addressed to the SP's logout URL, was issued by   *)
(*    the configured IdP no longer than MaxIssueDelay ago and has status    *)
(*    Success.  A well-formed logout response meeting all of these is       *)
(*    reported valid, and every other input yields an error."               *)
Done == pc = "done"

\* "a trusted IdP certificate": what this ServiceProvider is configured to trust -
\*   a pinned IDPCertificate        => that certificate and no other, whatever the metadata lists
\*   else a certificate fingerprint => only a certificate with that fingerprint
\*   else the IdP's metadata        => the certificates it offers for signing AS AN IdP: key
\*                                     descriptors of its IDPSSODescriptor with use "signing" or
\*                                     without a use (both uses).  A key the entity publishes
\*                                     for another role (T.oth: SPSSODescriptor, Attribute-
\*                                     AuthorityDescriptor) is not an IdP certificate.
T == TrustOf(cfg.trust)
OfferedForSigning(k) == \E i \in DOMAIN T.md : /\ T.md[i].use # "encryption"
                                               /\ \E j \in DOMAIN T.md[i].certs : T.md[i].certs[j] = k
Trusted == IF T.pin # "none" THEN {T.pin}
           ELSE IF T.fp # "none" THEN {T.fp}
           ELSE { k \in KeyCls : OfferedForSigning(k) }
\* settings the documentation of the fields excludes (a pinned certificate together with a
\* fingerprint; a fingerprint without a known digest algorithm): nothing has to be accepted
CfgOdd == \/ T.pin # "none" /\ T.fp # "none"
          \/ T.fp # "none" /\ T.alg \notin {"sha256", "sha512"}
\* no IdP is configured: no message "was issued by the configured IdP"
NoIdP == T.mdnil
D == DocOf(in)

\* the byte string does not decode to a document whose root is the message
FramingBad == in.framing \in {"empty", "notb64", "garbage", "wrongenc", "bomb", "truncated",
                              "rootless", "text", "unstable", "leading"}
\* decodes, but is not a well-formed single document (trailing element; 11 MB of padding)
FramingOdd == in.framing \in {"trailing", "bombvalid"}
\* some Signature inside the root references it, digests to it and was made by a trusted key
SigVerifies == \E i \in DOMAIN D.sigs : /\ D.sigs[i].shape = "ok" /\ D.sigs[i].ref = D.id
                                        /\ D.sigs[i].over = "root" /\ D.sigs[i].key \in Trusted
\* ... and it is the only one, a child of the root, naming its own certificate, nothing unsigned inside
SigClean == SigVerifies /\ in.sig = "root" /\ in.ki = "cert"
NotLogoutResponse == in.root # "ok"
DestBad   == in.dest # "eq"
IssBad    == in.iss # "eq"
\* "has status Success": the top-level StatusCode, whatever it nests
StatusBad == in.status # "Success"
\* Success with a second-level code inside: the statement does not say
StatusNested == in.sub # "none"
Stale     == in.time \in {"edge_stale", "stale", "absent", "malformed"}
FreshSure == in.time \in {"fresh", "edge_fresh"}

TwoMessages == in.entry \in {"req_both_q", "req_both_f"}     \* the second one is unsigned

MustReject == FramingBad \/ ~SigVerifies \/ NotLogoutResponse \/ DestBad \/ IssBad \/ NoIdP \/ StatusBad \/ Stale
MustAccept == /\ in.framing = "ok" /\ SigClean /\ ~NotLogoutResponse /\ ~DestBad /\ ~IssBad /\ ~StatusBad
              /\ FreshSure /\ ~TwoMessages /\ ~StatusNested /\ ~CfgOdd /\ ~NoIdP
Class == IF MustReject THEN "MustReject" ELSE IF MustAccept THEN "MustAccept" ELSE "DontCare"

RejectsBad  == Done /\ MustReject => verdict = "reject"
AcceptsGood == Done /\ MustAccept => verdict = "accept"
ValidOnlyIfSignedFreshAddressed ==
  Done /\ verdict = "accept" => /\ ~FramingBad /\ SigVerifies /\ ~NotLogoutResponse
                                /\ ~DestBad /\ ~IssBad /\ ~NoIdP /\ ~StatusBad /\ ~Stale
\* every input yields nil or an error, never a panic
Total == Done => verdict \in {"accept", "reject"}

Emit == Done => PrintT(<<"VEC", ToJson([prop |-> "C18", cfg |-> cfg, tc |-> T, trusted |-> Trusted, in |-> in, class |-> Class,
                                        why |-> [framing |-> FramingBad, odd |-> FramingOdd, sig |-> ~SigVerifies,
                                                 sigClean |-> SigClean, root |-> NotLogoutResponse,
                                                 dest |-> DestBad, iss |-> IssBad, status |-> StatusBad,
                                                 stale |-> Stale, fresh |-> FreshSure, two |-> TwoMessages,
                                                 nested |-> StatusNested, cfgodd |-> CfgOdd, noidp |-> NoIdP],
                                        pred |-> [verdict |-> verdict, step |-> step, path |-> path, cur |-> cur]])>>)
=============================================================================
