CONSTANTS
  K = 1
  MaxNodes = 14
  BaseSet <- AllBases
  RunCfgSeq <- RunsEnv
  Prods <- SibProds
  KISet <- KIClassic
  EnvWhereSet <- EnvWheres
  SibSeqSet <- SibAll
  Deviations = {}
  EmitMin = 1
  EmitFrom = 9
  EmitMod = 1
INIT Init
NEXT Next
INVARIANTS
  AllProps
  MustRejectAgrees
  FindSigAgrees
CHECK_DEADLOCK FALSE
