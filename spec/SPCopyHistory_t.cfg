CONSTANTS
  MaxLen = 5
INIT Init
NEXT Next
INVARIANTS
  OwnFlagDecides
  Emit
CHECK_DEADLOCK FALSE
