CONSTANTS
  MaxLen = 5
  MaxPresents = 3
INIT Init
NEXT Next
INVARIANTS
  OwnFlagDecides
  Emit
CHECK_DEADLOCK FALSE
