CONSTANTS
  Tier = "q"
  Unguarded = {}
  Unwrapped = {}
  DepthRestore = "parent"
  ContextDropped = FALSE
  CloseFailure = "logged"
INIT Init
NEXT Next
INVARIANTS
  NoPanic
  NoHang
  ResultOrError
  AssertionIffNoError
  ErrorShape
  BombRefused
  BodyLife
  Emit
CHECK_DEADLOCK TRUE
