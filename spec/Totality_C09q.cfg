CONSTANTS
  Tier = "q"
  Unguarded = {}
  Unwrapped = {}
INIT Init
NEXT Next
INVARIANTS
  NoPanic
  ResultOrError
  AssertionIffNoError
  ErrorShape
  BombRefused
  Emit
CHECK_DEADLOCK TRUE
