CONSTANTS
  Family = "C12q"
  IdBytes = 20
  MaxSeq = 100000000
  Seeded = {}
INIT TraceInit
NEXT TraceNext
CONSTRAINT HighWater
POSTCONDITION Accepted
PROPERTIES
  IDsFresh
CHECK_DEADLOCK FALSE
