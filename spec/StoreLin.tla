------------------------------ MODULE StoreLin ------------------------------
(***************************************************************************)
(* C20 - linearizability of the in-memory store with respect to a plain    *)
(* key/value map.                                                          *)
(*                                                                         *)
(* trace.ndjson holds concurrent histories recorded from the real          *)
(* MemoryStore: one line per operation                                     *)
(*   {h, c, op, k, v, inv, ret, res, keys}                                  *)
(* h = history number, c = client, inv/ret = global sequence numbers of    *)
(* invocation and return, res = value read (0 = not found), keys = result  *)
(* of List.  The sequential specification is the map `store`; an operation *)
(* may be linearised when every operation that returned before it was      *)
(* invoked has been linearised, and its result is what the map gives.      *)
(* TLC searches all linearisation orders; a history is accepted when all   *)
(* its operations are linearised; the trace is accepted when the last      *)
(* history is.                                                             *)
(***************************************************************************)
EXTENDS Integers, Sequences, FiniteSets, TLC, Json

TraceLog == ndJsonDeserialize("trace.ndjson")
N        == Len(TraceLog)
H        == TraceLog[N].h
Keys     == { TraceLog[i].k : i \in 1..N } \ {""}
OpsBy    == [x \in 1..H |-> { i \in 1..N : TraceLog[i].h = x }]    \* constant, evaluated once
OpsOf(x) == OpsBy[x]
ToSet(s) == { s[i] : i \in DOMAIN s }

VARIABLES h, done, store
vars == <<h, done, store>>

Empty == [k \in Keys |-> 0]

Init == /\ TLCSet(1, 0)
        /\ h = 1 /\ done = {} /\ store = Empty

\* real-time order: everything that returned before i was invoked is already linearised
Ready(i) == \A j \in OpsOf(h) \ done : j = i \/ TraceLog[j].ret > TraceLog[i].inv

Lin(i) ==
  /\ i \in OpsOf(h) \ done
  /\ Ready(i)
  /\ LET e == TraceLog[i] IN
     CASE e.op = "put"  -> store' = [store EXCEPT ![e.k] = e.v]
       [] e.op = "del"  -> store' = [store EXCEPT ![e.k] = 0]
       [] e.op = "get"  -> e.res = store[e.k] /\ UNCHANGED store
       [] e.op = "list" -> ToSet(e.keys) = { k \in Keys : store[k] # 0 } /\ UNCHANGED store
  /\ done' = done \cup {i}
  /\ UNCHANGED h

NextHistory == /\ done = OpsOf(h) /\ h < H
               /\ h' = h + 1 /\ done' = {} /\ store' = Empty

Next == NextHistory \/ \E i \in OpsOf(h) \ done : Lin(i)
Spec == Init /\ [][Next]_vars

\* acceptance: the furthest point any linearisation reached (register 1), -workers 1
Progress  == h * 1000 + Cardinality(done)
HighWater == TLCSet(1, IF TLCGet(1) < Progress THEN Progress ELSE TLCGet(1))
Accepted  == /\ TLCGet(1) = H * 1000 + Cardinality(OpsOf(H))
             /\ PrintT(<<"TRACES", H>>)
=============================================================================
