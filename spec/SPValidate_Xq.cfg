CONSTANTS
  Family = "Xq"
INIT Init
NEXT Next
INVARIANTS
  RejectsBad
  AcceptsGood
  ReturnedIsGood
  StatusReported
  NothingWithoutOutstanding
  Emit
CHECK_DEADLOCK FALSE
