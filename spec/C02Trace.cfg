CONSTANTS
  Settings <- QuickSettings
  Family = "A"
INIT TInit
NEXT TNext
CONSTRAINT HighWater
POSTCONDITION Accepted
CHECK_DEADLOCK FALSE
