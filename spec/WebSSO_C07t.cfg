\* C07 thorough tier.  Writer / EncAdvert describe the tree under test:
\*   pinned tree:            Writer = "etreeCanonicalText"    EncAdvert = "rsaOnly"
\*   with fixes/C07-*.patch: Writer = "etreeCanonicalText"  EncAdvert = "rsaOnly"
\* (a stale setting only produces drift entries, never a verdict)
CONSTANTS
  MaxLen = 3
  Families = {"text", "cfg"}
  Writer = "etreeCanonicalText"
  EncAdvert = "rsaOnly"
INIT Init
NEXT Next
INVARIANTS
  DigestStable
  ValueRoundTrips
  EncryptedCarriesNoText
  OnlyNamedDeviations
  DeviationsBreak
  ExactlyOneVerdict
  Emit
CHECK_DEADLOCK FALSE
