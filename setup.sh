#!/bin/sh
# Builds the driver and warms the harness build, offline, from files on disk only.
set -e
cd "$(dirname "$0")"
export GOFLAGS=-mod=mod GOPROXY=off GOSUMDB=off GOTOOLCHAIN=local
mkdir -p bin evidence replays .work
(cd cmd/vcheck && go build -o ../../bin/vcheck .)
cp /repo/go.sum harness/go.sum
(cd harness && go vet -tags verif . >/dev/null 2>&1 || true; go test -tags verif -count=1 -run '^$' . >/dev/null)
echo "setup ok"
